"""
C15 — circuits reported equal are equivalent; de-duplication keeps every distinct one.

Correspondence (exact): for every generated pair the results of the real `compare(method="direct")`,
`compare(method="is_isomorphic")`, and of the comparison `remove_redundant_circuits` makes (copy, unwrap, remove
identities, `circuit_is_isomorphic`) are compared with the model (`c15.cmp`), error classes included; the DAGs themselves
(node order, per-pair key order, `control_target` attributes, before and after normalisation) are compared with the model's
multigraph (`c15.graph`); `remove_redundant_circuits` and `CircuitStorage` on lists with `c15.filter`.

Direct oracle (independent of the comparison code and of the model): two circuits are *equivalent* iff their
distributions over compiled stabilizer states (StabilizerCompiler, every outcome of every random measurement enumerated)
agree — exactly for the register-by-register methods, up to some renaming of registers of the same type for the
isomorphism method (all renamings brute-forced, <= 6 quantum registers).  Reported-equal pairs must be equivalent;
comparison must be reflexive on copies, symmetric, and insensitive to wrapping / identities where the method normalises;
every circuit dropped by a filter must be equivalent to one that is kept.

D22 / D22′ (fixed in /repo 0d0996e, handoff/repairs/d22): the matcher of `circuit_is_isomorphic` used to see neither which
wire continues through a two-register node nor the roles at classically controlled operations.  After the repair every
edge carries the pair (role of its register at the operation it leaves, role at the operation it enters), roles c/t/m.

Two variants of the implementation are supported (`variant()` probes which one is under test by looking at the attribute
`add_control_target_to_dag` writes on the D22 witness):
  repaired  (what /repo is now) compared with `circuitIsIsomorphic2` / `isoNormalised2` / `removeRedundant2` (`iso2`,
            `isonorm2`, `kept2`, `stiso2`, graph dumps with `ct=2`).  For this matcher `Properties/C15.lean` *proves* the
            full statement (`iso_sound`, `iso_normalised_sound`, `dedup_sound`), so a false-equal is a plain VIOLATION (no
            finding key covers it), the witnesses must be told apart, and on every pair the model's own answer is checked
            against the model's brute-force `renEq` (reported isomorphic => equal up to renaming).  The converse is proved
            too (`iso_complete`, `filter_comparison_decides_renaming`): renamed copies, also with operations on disjoint
            registers appended in another order (pair class `renamed+reordered`), must be reported isomorphic.
  coded     the matcher before the repair: compared with `circuitIsIsomorphic` / `isoNormalised` / `removeRedundant`, for
            which `Properties/C15.lean` keeps the kernel-checked refutation (`iso_sound_refuted`).  The key
            `is_isomorphic:wire-continuity:false-equal` is emitted only for this variant; it is no longer in
            known_findings.txt, so a regression of the repair is reported as a VIOLATION.
"""
import itertools
import random

from harness import circutil as cu
from harness.common import Driver, Result, coverage_floor, err_class

LEVEL = "proof"
TRUSTED_BASE = [
    "Lean 4.33 kernel",
    "hand-written model GraphiqModel/Model/Compare.lean (multigraph with ordered edges, direct, the isomorphism matcher before and after the "
    "D22' repair, filters) tied to circuit_comparison.py / circuit_dag.py by this correspondence run (graphs compared node by node, key by key "
    "and attribute by attribute, before and after normalisation; all comparison results, filters and storages exactly)",
    "networkx.is_isomorphic assumed to decide existence of a bijection satisfying node_match/edge_match and preserving edge multiplicities "
    "(the theorems are about every bijection that passes the check `isoCheck2`; the model's backtracking search is proved complete for that "
    "specification on circuit DAGs — C15.model_answer_is_existence_of_an_isomorphism — and is compared with networkx' answer on every pair)",
    "'same compiled state' from 'same operation sequence on every register': proved for every semantics in which operations on disjoint quantum "
    "registers commute (Properties/C15.iso_sound_same_compiled_state) and instantiated with C13's verified stabilizer semantics "
    "(iso_sound_same_stabilizer_state) through the definitional translation `toSOp` (Proofs/CompareRepairStab.lean) of an executed operation of this "
    "model into an operation of C13's compile sequence — that translation is read, not tested; the direct oracle below evaluates the compiled states themselves",
    "StabilizerCompiler + harness/tabutil.span_canon as the state oracle; harness, line protocol",
]
ASSUMPTIONS = [
    "quantifier: circuits over the 13 non-parameterised operation classes and OneQubitGateWrapper whose operations act on registers of the "
    "circuit and on pairwise different ones (control != target) — `WellFormed`; state oracle on <= 6 quantum registers; parameterised rotations "
    "are outside (direct/is_isomorphic ignore parameters and direct's isinstance test is asymmetric for RX/RY/RZ vs ParameterizedOneQubitRotation "
    "— recorded in handoff/export.md)",
    "'same state' = same distribution over final stabilizer states; the classical record is not part of the state (direct ignores c_registers; "
    "the repaired isomorphism comparison does distinguish classical registers — it is finer, which is sound)",
    "GED-based methods are evaluated by the oracle only (networkx graph_edit_distance with a 10 s timeout is not modelled)",
]

K_WIRE = "is_isomorphic:wire-continuity:false-equal"
# fixed in /repo (edge_match now compares the roles of all parallel edges); kept as a *regression* key: it is no longer in
# known_findings.txt, so a reappearance is reported as a VIOLATION
K_IDENT = "remove_redundant:identity-on-parallel-wires:false-distinct"


def enc(c):
    ne, np_, nc, ts = c
    return f"{ne}.{np_}.{nc}/{cu.enc_ops(ts)}"


def dec(s):
    regs, ops = s.split("/")
    ne, np_, nc = (int(x) for x in regs.split("."))
    return (ne, np_, nc, cu.dec_ops(ops))


def build(c):
    return cu.build(c[0], c[1], c[2], c[3])


def safe(f):
    try:
        return str(int(bool(f())))
    except Exception as e:  # noqa: BLE001
        return "err:" + err_class(e)


_VARIANT = None


def variant():
    """'repaired' iff `add_control_target_to_dag` writes a pair of roles on the edges (handoff/repairs/d22), else 'coded'"""
    global _VARIANT
    if _VARIANT is None:
        from graphiq.utils.circuit_comparison import add_control_target_to_dag

        c = build(WITNESSES[1][1]).copy()
        add_control_target_to_dag(c)
        attrs = [d.get("control_target") for _, _, d in c.dag.edges(data=True)]
        _VARIANT = "repaired" if any(isinstance(a, tuple) for a in attrs) else "coded"
    return _VARIANT


def fld(k):
    """name of the model's reply field for the implementation's method `k` under the variant under test"""
    return k + "2" if (variant() == "repaired" and k in ("iso", "isonorm", "kept", "stiso")) else k


def iso_norm(ca, cb, *args, **kwargs):
    from graphiq.utils.circuit_comparison import circuit_is_isomorphic

    x, y = ca.copy(), cb.copy()
    x.unwrap_nodes()
    x.remove_identity()
    y.unwrap_nodes()
    y.remove_identity()
    return circuit_is_isomorphic(x, y, *args, **kwargs)


def impl_results(ca, cb):
    return {"direct": safe(lambda: ca.compare(cb, method="direct")),
            "iso": safe(lambda: ca.copy().compare(cb.copy(), method="is_isomorphic")),
            "isonorm": safe(lambda: iso_norm(ca, cb))}


def n_meas(c):
    return sum(1 for t in c[3] if t[0] in ("meas", "cctrl"))


def oracle_ok(c):
    return c[0] + c[1] <= 6 and n_meas(c) <= 5


def oracle_asked(res, stream, decided, why="too-many-branches"):
    """book-keeping of the bounded state oracle: every time a reported-equal / dropped / refused case asks for a decision it is counted
    as planned; an undecided answer (None: more than 256 measurement branches) or a circuit outside the oracle bound is counted in
    `errors` instead of passing silently, and `coverage_floor` (end of `run`) reports a collapse of the decided fraction"""
    cov = res.extra.setdefault("_oracle", {}).setdefault(stream, [0, 0])
    cov[1] += 1
    if decided:
        cov[0] += 1
    else:
        res.count("errors", f"oracle:{why}")


def wires_no_c(ts):
    """quantum wires with the classical register index forgotten"""
    w = cu.wires(ts, quantum_only=True)
    out = {}
    for r, seq in w.items():
        out[r] = [t[:4] if t[0] == "cctrl" else (t[:2] if t[0] == "meas" else t) for t in seq]
    return out


# ------------------------------------------------------------------------------------------------ generators
def rewrite_equivalent(rng, c):
    """same per-register operation sequences: regroup one-qubit runs into wrappers / unwrap, sprinkle identities, and
    commute adjacent operations on disjoint registers"""
    ne, np_, nc, ts = c
    out = []
    for t in ts:
        w = rng.random()
        if t[0] == "one" and w < 0.35:
            out.append(("wrap", (t[1],) if rng.random() < 0.5 else ("Identity", t[1]), t[2]))
        elif t[0] == "wrap" and w < 0.5:
            for g in reversed(t[1]):
                out.append(("one", g, t[2]))
        else:
            out.append(t)
        if rng.random() < 0.25:
            out.append(("one", "Identity", rng.choice(cu.op_regs(t)[:len([r for r in cu.op_regs(t) if r[0] != "c"])] or [("e", 0)])))
    # merge adjacent one-qubit gates on the same register into a wrapper (application order -> reversed list)
    merged = []
    for t in out:
        if merged and t[0] == "one" and merged[-1][0] == "one" and merged[-1][2] == t[2] and rng.random() < 0.4:
            a = merged.pop()
            merged.append(("wrap", (t[1], a[1]), t[2]))
        else:
            merged.append(t)
    # commute neighbours on disjoint registers
    for _ in range(len(merged)):
        if len(merged) < 2:
            break
        i = rng.randrange(len(merged) - 1)
        if not set(cu.op_regs(merged[i])) & set(cu.op_regs(merged[i + 1])):
            merged[i], merged[i + 1] = merged[i + 1], merged[i]
    return (ne, np_, nc, merged)


def swap_roles(rng, c):
    ne, np_, nc, ts = c
    idx = [i for i, t in enumerate(ts) if t[0] in ("ctrl", "cctrl")]
    if not idx:
        return None
    i = rng.choice(idx)
    t = ts[i]
    ts2 = list(ts)
    ts2[i] = (t[0], t[1], t[3], t[2]) + tuple(t[4:])
    return (ne, np_, nc, ts2)


def rename(rng, c):
    ne, np_, nc, ts = c
    pe, pp, pc = list(range(ne)), list(range(np_)), list(range(nc))
    rng.shuffle(pe)
    rng.shuffle(pp)
    rng.shuffle(pc)

    def rq(q):
        return (q[0], pe[q[1]] if q[0] == "e" else pp[q[1]])

    out = []
    for t in ts:
        if t[0] in ("one", "wrap"):
            out.append((t[0], t[1], rq(t[2])))
        elif t[0] == "ctrl":
            out.append((t[0], t[1], rq(t[2]), rq(t[3])))
        elif t[0] == "cctrl":
            out.append((t[0], t[1], rq(t[2]), rq(t[3]), pc[t[4]]))
        else:
            out.append((t[0], rq(t[1]), pc[t[2]]))
    return (ne, np_, nc, out)


def mutate_one(rng, c):
    ne, np_, nc, ts = c
    ts2 = list(ts)
    if ts2 and rng.random() < 0.8:
        ts2[rng.randrange(len(ts2))] = cu.random_op(rng, ne, np_, nc)
    else:
        ts2.insert(rng.randrange(len(ts2) + 1), cu.random_op(rng, ne, np_, nc))
    return (ne, np_, nc, ts2)


def tail_variation(rng, c):
    """keep the circuit, change only what happens after the last two-register operation (where the coded matcher is blind)"""
    ne, np_, nc, ts = c
    idx = [i for i, t in enumerate(ts) if t[0] in ("ctrl", "cctrl")]
    if not idx:
        return None
    i = rng.choice(idx)
    t = ts[i]
    a, b = t[2], t[3]
    g1, g2 = rng.choice(cu.G1[:-1]), rng.choice(cu.G1[:-1])
    c1 = (ne, np_, nc, list(ts[:i + 1]) + [("one", g1, a), ("one", g2, b)] + list(ts[i + 1:]))
    c2 = (ne, np_, nc, list(ts[:i + 1]) + [("one", g2, a), ("one", g1, b)] + list(ts[i + 1:]))
    return c1, c2


def regs_touched(t):
    """quantum registers of an operation tuple"""
    return {x for x in t[1:] if isinstance(x, tuple) and len(x) == 2 and x[0] in ("e", "p")}


def order_swapped(rng, c):
    """exchange two neighbouring operations that share a register (so the sequence on that register changes while every class, register
    set and node count stays the same) — preferably one whose *other* registers differ and come earlier in the walk order"""
    ne, np_, nc, ts = c
    cand = [i for i in range(len(ts) - 1) if regs_touched(ts[i]) & regs_touched(ts[i + 1]) and ts[i] != ts[i + 1]]
    if not cand:
        return None
    multi = [i for i in cand if len(regs_touched(ts[i])) > 1 and len(regs_touched(ts[i + 1])) > 1 and regs_touched(ts[i]) != regs_touched(ts[i + 1])]
    i = rng.choice(multi if multi and rng.random() < 0.7 else cand)
    ts2 = list(ts)
    ts2[i], ts2[i + 1] = ts2[i + 1], ts2[i]
    return (ne, np_, nc, ts2)


def all_regs(t):
    """all registers of an operation tuple, quantum and classical"""
    cl = {("c", t[4])} if t[0] == "cctrl" else ({("c", t[2])} if t[0] == "meas" else set())
    return regs_touched(t) | cl


def reordered(rng, c, tries=12):
    """exchange neighbouring operations that share no register at all (quantum or classical): the DAG is the same up to node ids,
    so the isomorphism comparison must not notice (Properties/C15.iso_complete, reordering_does_not_change_the_answer)"""
    ne, np_, nc, ts = c
    ts2 = list(ts)
    for _ in range(tries):
        cand = [i for i in range(len(ts2) - 1) if not (all_regs(ts2[i]) & all_regs(ts2[i + 1]))]
        if not cand:
            break
        i = rng.choice(cand)
        ts2[i], ts2[i + 1] = ts2[i + 1], ts2[i]
    return (ne, np_, nc, ts2)


def gen_reordered(rng, n):
    out = []
    while len(out) < n:
        c = random_small(rng, max_q=5, max_ops=12) if rng.random() < 0.8 else random_multi(rng)
        d = reordered(rng, rename(rng, c))
        out.append(("renamed+reordered", c, d))
    return out


def random_multi(rng):
    """3..5 quantum registers, mostly two-register gates: pairs of gates that share one late wire"""
    ne = rng.randrange(1, 4)
    np_ = rng.randrange(max(0, 3 - ne), 4)
    nc = 1
    ts = []
    for _ in range(rng.randrange(2, 9)):
        ts.append(cu.random_op(rng, ne, np_, nc, {"one": 0.15, "wrap": 0.0, "ctrl": 0.85, "cctrl": 0.0, "meas": 0.0}))
    return (ne, np_, nc, ts)


W_SMALL = {"one": 0.30, "wrap": 0.12, "ctrl": 0.33, "cctrl": 0.13, "meas": 0.12}


def random_small(rng, max_q=4, max_ops=10):
    ne = rng.randrange(1, max_q)
    np_ = rng.randrange(0, max_q + 1 - ne)
    nc = rng.randrange(1, 3)
    ts = []
    for _ in range(rng.randrange(0, max_ops + 1)):
        t = cu.random_op(rng, ne, np_, nc, W_SMALL)
        if t[0] in ("meas", "cctrl") and sum(1 for x in ts if x[0] in ("meas", "cctrl")) >= 4:
            t = ("one", rng.choice(cu.G1), cu.random_q(rng, ne, np_))
        ts.append(t)
    return (ne, np_, nc, ts)


def gen_pairs(rng, n):
    out = []
    while len(out) < n:
        c = random_small(rng) if rng.random() < 0.8 else random_small(rng, max_q=6, max_ops=25)
        w = rng.random()
        if w < 0.10:
            out.append(("copy", c, c))
        elif w < 0.30:
            out.append(("rewritten", c, rewrite_equivalent(rng, c)))
        elif w < 0.42:
            d = swap_roles(rng, c)
            if d:
                out.append(("roles-swapped", c, d))
        elif w < 0.57:
            out.append(("renamed", c, rename(rng, c)))
        elif w < 0.70:
            out.append(("one-op-changed", c, mutate_one(rng, c)))
        elif w < 0.85:
            p = tail_variation(rng, c)
            if p:
                out.append(("tail-variation", p[0], p[1]))
        elif w < 0.92:
            out.append(("renamed+rewritten", c, rewrite_equivalent(rng, rename(rng, c))))
        elif w < 0.96:
            base = random_multi(rng) if rng.random() < 0.7 else c
            d = order_swapped(rng, base)
            if d:
                out.append(("order-swapped", base, d))
        else:
            d = random_small(rng)
            out.append(("random", c, (c[0], c[1], c[2], d[3]) if (d[0] <= c[0] and d[1] <= c[1] and d[2] <= c[2]) else d))
    return out


# ------------------------------------------------------------------------------------------------ one pair
def check_pair(res, kind, c1, c2, rep, want_state=True):
    """direct oracle + exact comparison with the model reply for one ordered pair"""
    inp = {"kind": kind, "a": enc(c1), "b": enc(c2)}
    ca, cb = build(c1), build(c2)
    impl = impl_results(ca, cb)
    res.evaluations += 1
    res.count("branches", f"pair:{kind}")
    for k in ("direct", "iso", "isonorm"):
        res.count("branches", f"{k}={impl[k]}")
    if rep["_status"] != "ok":
        res.exact_break("c15.cmp", input=inp, impl=str(impl), model=rep["_raw"][:300])
        rep = {}
    else:
        for k in ("direct", "iso", "isonorm"):
            if rep.get(fld(k)) != impl[k]:
                res.exact_break(f"compare:{k}", input=inp, impl=impl[k], model=rep.get(fld(k)))
        # the theorem of Properties/C15.lean evaluated on the model itself: the repaired matcher reports isomorphic only
        # if the model's brute-force search finds a renaming of same-type registers (no oracle bound on this check)
        for k in ("iso2", "isonorm2"):
            if rep.get(k) == "1" and rep.get("reneq") != "1":
                res.violation(f"model:{k}:not-renEq", "the model of the repaired matcher reports isomorphic but no renaming makes the wires equal "
                              "(contradicts Properties/C15.iso_sound)", input=inp, model=rep.get("_raw", "")[:200])
        if rep.get("directl") != impl["direct"]:
            # the operation-list form of `direct` (proved equal to the walk model for well-formed circuits) must agree with the implementation too
            res.exact_break("compare:direct (operation-list form)", input=inp, impl=impl["direct"], model=rep.get("directl"))
        res.traces_validated += 1
    same_regs = c1[:3] == c2[:3]
    same_wires = same_regs and wires_no_c(c1[3]) == wires_no_c(c2[3])
    nontrivial = any(t[0] in ("ctrl", "cctrl") for t in c1[3])
    if nontrivial:
        res.nontrivial(kind, inp["a"], inp["b"])
    usable = want_state and oracle_ok(c1) and oracle_ok(c2)
    # ---- register-by-register method: exact equivalence
    if impl["direct"] == "1":
        if not same_wires:
            res.violation("direct:false-equal:wires", "direct reports equal but registers or some register's operation sequence differ", input=inp)
        elif usable:
            same = cu.same_state(ca, cb)
            oracle_asked(res, "direct reported equal", same is not None)
            if same is False:
                res.violation("direct:false-equal:state", "direct reports equal but the circuits compile to different states", input=inp)
        elif want_state:
            oracle_asked(res, "direct reported equal", False, "outside-bound")
    elif impl["direct"] == "0":
        if kind in ("copy", "rewritten") and same_wires:
            res.violation("direct:false-distinct", "direct reports a copy / a re-bracketed copy (wrappers, identities) as different", input=inp)
    else:
        res.violation(f"direct:raises:{impl['direct']}", "direct raised on two valid circuits", input=inp)
    # ---- isomorphism method: equivalence up to renaming
    for meth in ("iso", "isonorm"):
        if impl[meth] == "1" and want_state and not usable:
            oracle_asked(res, "isomorphism reported equal", False, "outside-bound")
        if impl[meth] == "1" and usable:
            eq, _ = cu.equivalent_up_to_renaming(ca, cb)
            oracle_asked(res, "isomorphism reported equal", eq is not None)
            if eq is False:
                coded = variant() == "coded" and rep.get(meth) == "1" and rep.get("reneq") == "0"
                key = K_WIRE if coded else (f"{meth}:false-equal:not-the-coded-matcher" if variant() == "coded" else f"{meth}:false-equal:repaired-matcher")
                res.violation(key, "the isomorphism comparison reports equal but no renaming of same-type registers makes the compiled states equal",
                              input=inp, method=meth, model=rep.get("_raw", "")[:200])
        elif impl[meth].startswith("err"):
            res.violation(f"{meth}:raises:{impl[meth]}", "isomorphism comparison raised on two valid circuits", input=inp)
    if kind == "copy" and impl["iso"] != "1":
        res.violation("is_isomorphic:not-reflexive", "a circuit is not isomorphic to its copy", input=inp)
    if kind in ("renamed", "renamed+reordered") and (impl["iso"] != "1" or impl["isonorm"] != "1"):
        res.violation("is_isomorphic:false-distinct:renamed", "a circuit is not isomorphic to a copy with the registers of each type permuted"
                      + (" and operations on disjoint registers appended in another order" if kind != "renamed" else ""), input=inp,
                      impl=f"{impl['iso']}/{impl['isonorm']}")
    if kind in ("rewritten",) and same_wires and impl["isonorm"] == "0":
        coded = rep.get(fld("isonorm")) == "0"
        res.violation(K_IDENT if coded else "remove_redundant:false-distinct:not-the-coded-matcher",
                      "after unwrapping and identity removal two copies of one circuit are still reported different", input=inp)
    return impl


def shrink_pair(res, drv, n_before, kind, c1, c2, want_state):
    """minimise the pair of the violation just recorded (same key), unless it is a known finding"""
    if len(res.violations) <= n_before or getattr(res, "_shrunk", 0) >= 4:
        return
    key = res.violations[n_before]["key"]
    if key == K_WIRE:
        return
    res._shrunk = getattr(res, "_shrunk", 0) + 1

    def fails_with(a_ops, b_ops):
        a, b = (c1[0], c1[1], c1[2], a_ops), (c2[0], c2[1], c2[2], b_ops)
        r = Result()
        try:
            check_pair(r, kind, a, b, drv.ask(f"c15.cmp a={enc(a)} b={enc(b)}"), want_state)
        except Exception:  # noqa: BLE001
            return False
        return any(v["key"] == key for v in r.violations)

    a_ops, b_ops = list(c1[3]), list(c2[3])
    # first try to drop the same position from both (the second circuit is usually a variation of the first)
    if len(a_ops) == len(b_ops):
        i = len(a_ops) - 1
        while i >= 0:
            ca, cb = a_ops[:i] + a_ops[i + 1:], b_ops[:i] + b_ops[i + 1:]
            if fails_with(ca, cb):
                a_ops, b_ops = ca, cb
            i -= 1
    a_ops = cu.shrink_list(a_ops, lambda cand: fails_with(cand, b_ops), budget=60)
    b_ops = cu.shrink_list(b_ops, lambda cand: fails_with(a_ops, cand), budget=60)
    if len(a_ops) + len(b_ops) < len(c1[3]) + len(c2[3]):
        a, b = (c1[0], c1[1], c1[2], a_ops), (c2[0], c2[1], c2[2], b_ops)
        r = Result()
        check_pair(r, kind, a, b, drv.ask(f"c15.cmp a={enc(a)} b={enc(b)}"), want_state)
        hit = [v for v in r.violations if v["key"] == key]
        if hit:
            hit[0]["shrunk_from"] = {"a": enc(c1)[:400], "b": enc(c2)[:400]}
            res.violations[n_before] = hit[0]


def run_pairs(res, drv, pairs, want_state=True):
    lines = [f"c15.cmp a={enc(c1)} b={enc(c2)}" for _, c1, c2 in pairs] + [f"c15.cmp a={enc(c2)} b={enc(c1)}" for _, c1, c2 in pairs]
    reps = drv.batch(lines)
    n = len(pairs)
    for i, (kind, c1, c2) in enumerate(pairs):
        n_before = len(res.violations)
        r12 = check_pair(res, kind, c1, c2, reps[i], want_state)
        shrink_pair(res, drv, n_before, kind, c1, c2, want_state)
        # symmetry (on the implementation)
        ca, cb = build(c1), build(c2)
        r21 = impl_results(cb, ca)
        for k in ("direct", "iso", "isonorm"):
            if r12[k] != r21[k]:
                res.violation(f"{k}:asymmetric", "comparison gives different answers for (a,b) and (b,a)", input={"a": enc(c1), "b": enc(c2)},
                              impl=f"{r12[k]} vs {r21[k]}")
            if reps[n + i]["_status"] == "ok" and reps[n + i].get(fld(k)) != r21[k]:
                res.exact_break(f"compare:{k}", input={"a": enc(c2), "b": enc(c1)}, impl=r21[k], model=reps[n + i].get(fld(k)))
        if reps[n + i]["_status"] != "ok":
            # the model must answer for every pair of valid circuits: an error reply is a break of the correspondence, not a skipped case
            res.exact_break("c15.cmp:model-error", input={"a": enc(c2), "b": enc(c1)}, impl=str(r21), model=reps[n + i]["_raw"][:300])
        res.count("sizes", f"qubits={c1[0] + c1[1]}")
        res.count("sizes", "ops<=5" if len(c1[3]) <= 5 else ("ops<=12" if len(c1[3]) <= 12 else "ops>12"))
    if lines:
        res.sample(lines[0][:300] + " -> " + reps[0]["_raw"][:200])


# ------------------------------------------------------------------------------------------------ circuits reached through edit histories
def run_history(res, drv, rng, n):
    """the second circuit of the pair is *reached by another edit history* (`replace_op` of a placeholder of another class — Identity, plain
    gate, wrapper, the other controlled gate — or `insert_at` on the output edges): the comparison must answer as for the `add`-built circuit
    (the model reply), a history-built copy must compare equal, and equal still means equal wires"""
    specs = []
    for _ in range(n):
        c = random_small(rng) if rng.random() < 0.8 else random_small(rng, max_q=5, max_ops=16)
        w = rng.random()
        d = c if w < 0.5 else (mutate_one(rng, c) if w < 0.8 else (order_swapped(rng, c) or c))
        specs.append((c, d, rng.choice(["replace", "replace", "insert", "insert-mid"]), rng.getrandbits(32)))
    reps = drv.batch([f"c15.cmp a={enc(c)} b={enc(d)}" for c, d, _, _ in specs])
    import random as _random
    for (c, d, mode, sd), rep in zip(specs, reps):
        r2 = _random.Random(sd)
        ca = build(c)
        try:
            cb = cu.build_history(d[0], d[1], d[2], d[3], mode=mode, pick=lambda k, t: r2.random() < 0.6)
        except Exception as e:  # noqa: BLE001
            res.violation(f"history:raises:{err_class(e)}", "replace_op / insert_at raised while building a valid circuit", input={"b": enc(d), "mode": mode})
            continue
        inp = {"kind": "history:" + mode, "a": enc(c), "b": enc(d), "pick_seed": sd}
        res.evaluations += 1
        res.count("branches", f"history:{mode}:{'copy' if d == c else 'variant'}")
        for tag, impl in (("ab", impl_results(ca, cb)), ("ba", {k: v for k, v in impl_results(cb.copy(), ca.copy()).items()})):
            same_wires = c[:3] == d[:3] and wires_no_c(c[3]) == wires_no_c(d[3])
            if tag == "ab" and rep["_status"] == "ok":
                for k in ("direct", "iso", "isonorm"):
                    if rep.get(fld(k)) != impl[k]:
                        res.exact_break(f"compare:{k} (second circuit reached by a {mode} history)", input=inp, impl=impl[k], model=rep.get(fld(k)))
            elif tag == "ab":
                res.exact_break("c15.cmp:model-error", input=inp, impl=str(impl), model=rep["_raw"][:300])
            if impl["direct"] == "1" and not same_wires:
                res.violation("direct:false-equal:history", "direct reports equal but the circuits differ on some register (second circuit reached by an edit history)", input=inp)
            elif impl["direct"] == "0" and d == c:
                res.violation("direct:false-distinct:history", "a circuit reached by replace_op / insert_at is reported different from the add-built circuit with the same operations", input=inp)
            elif impl["direct"].startswith("err"):
                res.violation(f"direct:raises:{impl['direct']}", "direct raised on two valid circuits", input=inp)
            if d == c and impl["iso"] != "1":
                res.violation("is_isomorphic:false-distinct:history", "a circuit reached by replace_op / insert_at is not isomorphic to the add-built circuit with the same operations", input=inp)
        res.nontrivial("history", inp["a"], inp["b"], mode, sd)


# ------------------------------------------------------------------------------------------------ graphs
def dump_impl(c, norm, ct):
    from graphiq.utils.circuit_comparison import add_control_target_to_dag

    c = c.copy()
    if norm:
        c.unwrap_nodes()
        c.remove_identity()
    if ct:
        add_control_target_to_dag(c)

    def nm(n):
        op = c.dag.nodes[n]["op"]
        if str(n).endswith("_in"):
            return f"{n}=Input:{op.reg_type}{op.register}"
        if str(n).endswith("_out"):
            return f"{n}=Output:{op.reg_type}{op.register}"
        return f"{n}={cu.enc_op(cu.op_tuple(op))}"

    nodes = ";".join(nm(n) for n in c.dag.nodes)
    pairs = {}
    for u in c.dag.nodes:
        for v in c.dag[u]:
            pairs[(str(u), str(v))] = [(k, show_attr(c.dag[u][v][k].get("control_target"))) for k in c.dag[u][v]]
    return nodes, pairs, cu.regs_of(c)


def show_attr(a):
    """`control_target` attribute as the model prints it: a role ('c', 't', 'm', '-' for None), or the two roles of the repaired attribute"""
    if isinstance(a, tuple):
        return "".join(x or "-" for x in a)
    return a or "-"


def dump_model(rep):
    pairs = {}
    for e in (rep["edges"].split(";") if rep["edges"] != "-" else []):
        s, t, k, ct = e.split(">")
        pairs.setdefault((s, t), []).append((k, ct))
    return rep["nodes"], pairs, tuple(int(x) for x in rep["regs"].split("."))


def run_graphs(res, drv, circs):
    lines, meta = [], []
    for c in circs:
        for norm in (0, 1):
            for ct in (0, 1):
                lines.append(f"c15.graph c={enc(c)} norm={norm} ct={2 if (ct and variant() == 'repaired') else ct}")
                meta.append((c, norm, ct))
    reps = drv.batch(lines)
    for (c, norm, ct), rep, ln in zip(meta, reps, lines):
        res.evaluations += 1
        impl = dump_impl(build(c), norm, ct)
        if rep["_status"] != "ok" or dump_model(rep) != impl:
            res.exact_break("dag:nodes/edge-key-order/control_target", input={"c": enc(c), "norm": norm, "ct": ct}, impl=str(impl)[:600], model=rep["_raw"][:600])
        res.count("branches", f"graph:norm={norm}:ct={ct}")


# ------------------------------------------------------------------------------------------------ filters
def run_filters(res, drv, rng, n_lists):
    from graphiq.utils.circuit_comparison import CircuitStorage, circuit_is_isomorphic, remove_redundant_circuits

    specs = []
    for _ in range(n_lists):
        base = random_small(rng, max_q=4, max_ops=7)
        lst = [base]
        for _ in range(rng.randrange(1, 9)):
            src = rng.choice(lst)
            w = rng.random()
            if w < 0.3:
                lst.append(rewrite_equivalent(rng, src))
            elif w < 0.5:
                lst.append(rename(rng, src))
            elif w < 0.7:
                lst.append(mutate_one(rng, src))
            elif w < 0.85:
                p = tail_variation(rng, src)
                lst.append(p[1] if p else mutate_one(rng, src))
            else:
                lst.append(src)
        specs.append(lst)
    lines = ["c15.filter cs=" + "|".join(enc(c) for c in lst) for lst in specs]
    reps = drv.batch(lines)
    for lst, rep, ln in zip(specs, reps, lines):
        res.evaluations += 1
        objs = [build(c) for c in lst]
        inp = {"list": [enc(c) for c in lst]}

        def iso_check(a, b, *args, **kwargs):
            # whatever else `CircuitStorage` passes to its check function goes on to `circuit_is_isomorphic`
            return iso_norm(a, b, *args, **kwargs)

        try:
            kept = remove_redundant_circuits(objs)
            kept_idx = [next(i for i, o in enumerate(objs) if o is k) for k in kept]
            st = CircuitStorage()
            flags_d = "".join("1" if st.add_new_circuit(o) else "0" for o in objs)
            st2 = CircuitStorage(check_function=iso_check)
            flags_i = "".join("1" if st2.add_new_circuit(o) else "0" for o in objs)
        except Exception as e:  # noqa: BLE001 — the filters must not raise on a list of valid circuits
            res.violation(f"filter:raises:{err_class(e)}", "remove_redundant_circuits / CircuitStorage raised on a list of valid circuits",
                          input=inp, impl=repr(e)[:200], model=rep["_raw"][:200])
            continue
        if rep["_status"] != "ok":
            res.exact_break("c15.filter", input=inp, model=rep["_raw"][:300])
        else:
            mk = [] if rep[fld("kept")] == "-" else [int(x) for x in rep[fld("kept")].split(".")]
            if mk != kept_idx:
                res.exact_break("remove_redundant_circuits", input=inp, impl=str(kept_idx), model=str(mk))
            if rep["stdirect"] != flags_d:
                res.exact_break("CircuitStorage(default check)", input=inp, impl=flags_d, model=rep["stdirect"])
            if rep[fld("stiso")] != flags_i:
                res.exact_break("CircuitStorage(isomorphism check)", input=inp, impl=flags_i, model=rep[fld("stiso")])
            res.traces_validated += 1
        res.count("branches", f"filter:kept={len(kept_idx)}of{len(lst)}" if len(lst) <= 4 else "filter:long-list")
        res.nontrivial("filter", tuple(inp["list"]))
        # oracle: subset in order; every dropped circuit is equivalent (up to renaming) to a kept one
        if sorted(kept_idx) != kept_idx or len(set(kept_idx)) != len(kept_idx):
            res.violation("remove_redundant:not-a-sublist", "the filtered list is not a sub-list of the input", input=inp, impl=str(kept_idx))
        for i, c in enumerate(lst):
            if i in kept_idx:
                continue
            if not oracle_ok(c):
                oracle_asked(res, "circuit dropped by the filter", False, "outside-bound")
                continue
            ok, undecided = False, False
            for k in kept_idx:
                if not oracle_ok(lst[k]):
                    undecided = True
                    continue
                eq = cu.equivalent_up_to_renaming(objs[k], objs[i])[0]
                if eq is True:
                    ok = True
                    break
                if eq is None:
                    undecided = True
            # decided = an equivalent kept circuit was found, or every kept circuit was decided inequivalent
            oracle_asked(res, "circuit dropped by the filter", ok or not undecided)
            if not ok and not undecided:
                # the known finding only covers what the matcher *as coded* (= the model) does
                coded = (variant() == "coded" and rep["_status"] == "ok"
                         and ([] if rep["kept"] == "-" else [int(x) for x in rep["kept"].split(".")]) == kept_idx)
                res.violation(K_WIRE if coded else "remove_redundant:discarded-inequivalent",
                              "remove_redundant_circuits dropped a circuit that is inequivalent (under every renaming) to every circuit kept",
                              input=inp, dropped=i, kept=str(kept_idx))
        # storage with the default (direct) check: a refused circuit equals a stored one exactly
        stored = [i for i, f in enumerate(flags_d) if f == "1"]
        for i, f in enumerate(flags_d):
            if f == "0" and not oracle_ok(lst[i]):
                oracle_asked(res, "circuit refused by the storage", False, "outside-bound")
            if f == "0" and oracle_ok(lst[i]):
                ok, undecided = False, False
                for k in stored:
                    if k >= i or lst[k][:3] != lst[i][:3]:
                        continue
                    if not oracle_ok(lst[k]):
                        undecided = True
                        continue
                    same = cu.same_state(objs[k], objs[i])
                    if same is True:
                        ok = True
                        break
                    if same is None:
                        undecided = True
                oracle_asked(res, "circuit refused by the storage", ok or not undecided)
                if not ok and not undecided:
                    res.violation("storage:refused-inequivalent", "CircuitStorage refused a circuit that differs from every stored circuit", input=inp, refused=i)
    if lines:
        res.sample(lines[0][:300] + " -> " + reps[0]["_raw"][:120])


# ------------------------------------------------------------------------------------------------ known-finding witnesses
E0, E1 = ("e", 0), ("e", 1)
WITNESSES = [
    # smallest: the roles at a classically controlled operation (witA / witB of Properties/C15.lean)
    ("classical-control-roles", (2, 0, 1, [("one", "Hadamard", E0), ("cctrl", "ClassicalCNOT", E1, E0, 0)]),
     (2, 0, 1, [("one", "Hadamard", E0), ("cctrl", "ClassicalCNOT", E0, E1, 0)])),
    # D22 as recorded in DESIGN §5
    ("D22", (2, 0, 0, [("ctrl", "CNOT", E1, E0), ("one", "Hadamard", E0), ("ctrl", "CNOT", E1, E0), ("ctrl", "CNOT", E1, E0)]),
     (2, 0, 0, [("ctrl", "CNOT", E1, E0), ("one", "Hadamard", E0), ("ctrl", "CNOT", E1, E0), ("ctrl", "CNOT", E0, E1)])),
    # no parallel edges needed: what follows a two-register node may be swapped between its wires
    ("tail-swap", (2, 0, 0, [("one", "Hadamard", E0), ("ctrl", "CNOT", E0, E1), ("one", "Phase", E0), ("ctrl", "CNOT", E0, E1), ("one", "Hadamard", E0), ("one", "Phase", E1)]),
     (2, 0, 0, [("one", "Hadamard", E0), ("ctrl", "CNOT", E0, E1), ("one", "Phase", E0), ("ctrl", "CNOT", E0, E1), ("one", "Phase", E0), ("one", "Hadamard", E1)])),
]


def run_witnesses(res, drv):
    """kernel-checked refutation witnesses of Properties/C15.lean, replayed on the implementation"""
    lines = [f"c15.cmp a={enc(a)} b={enc(b)}" for _, a, b in WITNESSES]
    reps = drv.batch(lines)
    reproduced = False
    for (name, a, b), rep in zip(WITNESSES, reps):
        ca, cb = build(a), build(b)
        impl = impl_results(ca, cb)
        res.evaluations += 1
        eq, _ = cu.equivalent_up_to_renaming(ca, cb)
        if eq is None:
            res.exact_break("witness: the state oracle could not decide a witness pair", input={"a": enc(a), "b": enc(b)})
        if rep.get(fld("iso")) != impl["iso"]:
            res.exact_break("compare:iso (witness)", input={"a": enc(a), "b": enc(b)}, impl=impl["iso"], model=rep.get(fld("iso")))
        if rep.get("iso") != "1" or rep.get("iso2") != "0":
            # Properties/C15.lean: the coded matcher accepts the witnesses (`iso_witnesses`), the repaired one rejects them (`iso2_witnesses`)
            res.exact_break("witness: model replies differ from the kernel-checked ones", input={"a": enc(a), "b": enc(b)}, model=rep.get("_raw", "")[:200])
        if impl["iso"] == "1" and eq is False:
            reproduced = True
            res.violation(K_WIRE if variant() == "coded" else "iso:false-equal:repaired-matcher",
                          f"witness {name}: is_isomorphic reports equal, yet the compiled states differ under every register renaming",
                          input={"kind": "witness:" + name, "a": enc(a), "b": enc(b)})
    res.notes.append(f"implementation variant under test: {variant()} matcher")
    res.count("branches", f"variant:{variant()}")
    if not reproduced:
        res.known_gone.append(K_WIRE)


IDENT_WITNESS = ((2, 0, 0, [("ctrl", "CNOT", E0, E1), ("one", "Identity", E0), ("ctrl", "CNOT", E0, E1)]),
                 (2, 0, 0, [("ctrl", "CNOT", E0, E1), ("ctrl", "CNOT", E0, E1)]))


def run_ident_witness(res, drv):
    from graphiq.utils.circuit_comparison import remove_redundant_circuits

    a, b = IDENT_WITNESS
    kept = remove_redundant_circuits([build(a), build(b)])
    res.evaluations += 1
    if len(kept) == 2:
        res.violation(K_IDENT, "remove_redundant_circuits keeps both CNOT;I;CNOT and CNOT;CNOT: an identity between two two-register "
                      "operations changes the key order of their parallel edges and edge_match must not depend on that order (regression of the fix)",
                      input={"kind": "witness:identity", "a": enc(a), "b": enc(b)})
    else:
        res.notes.append("identity between two two-register operations: remove_redundant_circuits keeps one circuit (edge_match fix in place)")


def run_ged(res, rng, n):
    """GED-based methods: oracle only, tiny circuits"""
    import time

    t0 = time.time()
    for _ in range(n):
        if time.time() - t0 > 40:
            break
        c = random_small(rng, max_q=2, max_ops=3)
        d = rewrite_equivalent(rng, c) if rng.random() < 0.5 else mutate_one(rng, c)
        ca, cb = build(c), build(d)
        for meth in ("GED_full", "GED_approximate", "GED_adaptive"):
            r = safe(lambda: ca.compare(cb, method=meth))
            res.evaluations += 1
            res.count("branches", f"{meth}={r}")
            if r == "1" and not (c[:3] == d[:3] and wires_no_c(c[3]) == wires_no_c(d[3])):
                res.violation(f"{meth}:false-equal", "a GED-based comparison reports equal but the circuits differ on some register",
                              input={"a": enc(c), "b": enc(d)})
            elif r.startswith("err:"):
                # the GED methods are not modelled, so there is no model class to agree with: raising on two valid circuits is a violation
                res.violation(f"ged:raises:{r[4:]}", f"compare(method={meth!r}) raised on two valid circuits", input={"a": enc(c), "b": enc(d)}, method=meth)


# ------------------------------------------------------------------------------------------------ entry points
def exhaustive_pairs():
    """all ordered pairs of circuits with <= 2 operations over a small alphabet on e0,e1 (+c0)"""
    al = [("one", "Hadamard", E0), ("one", "Hadamard", E1), ("one", "Identity", E0), ("wrap", ("Hadamard",), E0),
          ("ctrl", "CNOT", E0, E1), ("ctrl", "CNOT", E1, E0), ("ctrl", "CZ", E0, E1),
          ("cctrl", "ClassicalCNOT", E0, E1, 0), ("cctrl", "ClassicalCNOT", E1, E0, 0), ("meas", E0, 0)]
    circs = [(2, 0, 1, list(w)) for n in (0, 1, 2) for w in itertools.product(al, repeat=n)]
    return [("exhaustive", a, b) for a in circs for b in circs]


def run(ctx):
    res = Result()
    res.rule = ("one evaluation = one ordered pair of circuits compared by the three modelled methods (+ symmetry, + state oracle), one DAG dump, one "
                "list filtered, or one GED comparison; non-trivial = the first circuit contains a two-register operation; distinct by the full input")
    drv = Driver()
    rng = ctx.rng
    q = ctx.quick
    run_witnesses(res, drv)
    run_ident_witness(res, drv)
    ex = exhaustive_pairs()
    if q:
        ex = rng.sample(ex, 1500)
    else:
        res.exhaustive = True
        res.notes.append("exhaustive: all 12,321 ordered pairs of circuits with <= 2 operations over a 10-operation alphabet on two emitters")
    run_pairs(res, drv, ex)
    run_pairs(res, drv, gen_pairs(rng, 700 if q else 7000))
    run_history(res, drv, rng, 250 if q else 2500)
    run_graphs(res, drv, [random_small(rng, max_q=5, max_ops=14) for _ in range(150 if q else 1500)])
    run_filters(res, drv, rng, 60 if q else 600)
    run_ged(res, rng, 12 if q else 60)
    # completeness side of the repaired comparison (own generator, drawn last so that the streams above are unchanged)
    run_pairs(res, drv, gen_reordered(random.Random(rng.getrandbits(64)), 120 if q else 1200))
    # the bounded state oracle: how many of the decisions asked for were actually taken
    for stream, (done, planned) in sorted(res.extra.pop("_oracle", {}).items()):
        coverage_floor(res, "state oracle: " + stream, done, planned, floor=0.5, what="oracle decisions")
    # findings reproduced on this run
    for key, desc in ((K_WIRE, "is_isomorphic false-equal"),):
        if any(v["key"] == key for v in res.violations):
            res.known.append((key, desc))
    res.extra["driver_lines"] = drv.n_lines
    drv.close()
    return res


def search(ctx, res, proof_broken):
    drv = Driver()
    run_pairs(res, drv, exhaustive_pairs()[:6000])
    if not [v for v in res.violations if v["key"] != K_WIRE]:
        run_pairs(res, drv, gen_pairs(ctx.rng, 3000))
    res.extra.pop("_oracle", None)
    drv.close()


def replay(ctx, data):
    v = data.get("violation") or {}
    inp = v.get("input") or {}
    if "a" not in inp:
        if "list" in inp:
            from graphiq.utils.circuit_comparison import remove_redundant_circuits

            objs = [build(dec(s)) for s in inp["list"]]
            kept = remove_redundant_circuits(objs)
            print("kept", [next(i for i, o in enumerate(objs) if o is k) for k in kept])
        return None
    c1, c2 = dec(inp["a"]), dec(inp["b"])
    r = Result()
    drv = Driver()
    rep = drv.ask(f"c15.cmp a={enc(c1)} b={enc(c2)}")
    check_pair(r, inp.get("kind", "replay"), c1, c2, rep)
    drv.close()
    for x in r.violations:
        print("still failing:", x["key"], "-", x["clause"])
    return not r.violations
