"""
C05 — stabilizer state comparison and fidelity are exact.

Correspondence: `metric.fidelity/inner_product`, `canonical_form`, `Stabilizer.__eq__` on the real implementation vs the Lean model
(`stab.ip`, `stab.canon`), compared exactly (exponent k / zero; canonical tableau); every canonical form the real code returns is
also run through the verified shape checker `stab.iscanon` (Lean `isCanon`, sound for the shape `Canon` on which the normal-form
theorem `canonical_form_is_normal_form` rests).
Direct oracle (independent of graphiq and of the model): the exact overlap |<a|b>|^2 computed (i) for n <= 5 from dense density
matrices tr(rho_a rho_b), (ii) for every n by GF(2) elimination: 0 if the groups contain P and -P, else 2^-(n - dim(A ∩ B));
symmetry; fidelity = 1 iff same signed group; canonical form / equality depend only on the signed group and distinguish signs;
`graphiq.metrics.Infidelity.evaluate` on stabilizer targets (pure state, and a mixture sum_i p_i F(T_i, T_t)) = 1 - that overlap.
Formal specification check (n <= 3): the Lean predicates of the fidelity theorems (`Orth`, the common subgroup A ∩ B) are evaluated on
every pair through their brute-force executable versions (`stab.overlap`: `orthB_iff`, `commonB_iff` proved exact) and compared with
the REAL fidelity and with the elimination oracle — so the statement the theorems are about is itself tied to the code's values.
The former hypothesis `hzero` of the fidelity theorems (the synthesis of the first argument reached |0..0>) is now itself a theorem
(`C11.inverse_circuit_ends_in_zero`, D42 repaired in graphiq 74abae4), so the fidelity theorems are unconditional; as a regression it is
still evaluated by the model on both arguments of every pair (`stab.inv ... zero=`): `zero=0` on a valid state breaks the correspondence
(`stab.inv:model-not-zero`), and any wrong fidelity is a VIOLATION.
"""
import numpy as np

from harness import stabutil as su
from harness import tabutil as tu
from harness.common import Driver, Result, err_class, impl_guard

LEVEL = "proof"
TRUSTED_BASE = [
    "Lean 4.33 kernel",
    "hand-written model GraphiqModel/Model/StabTableau.lean (canonical_form, inverse_circuit, inner_product) tied to stabilizer.py/metric.py by this correspondence run",
    "stabilizer inner-product formula |<a|b>|^2 = 0 (if P in A, -P in B) or 2^-(n-dim(A∩B)) (textbook; the Lean theorems prove inner_product = this group-level value AND = tr(rho_a rho_b) (fidelity_is_state_overlap) unconditionally for all n; and tr(rho_a rho_b) = |<a|b>|^2 with the rank-one forms rho = |psi><psi| is proved too: fidelity_is_squared_inner_product, independently C07.stabilizer_state_overlap; nothing of the formula is left to the textbook), cross-checked against dense matrices for n<=5 on every run",
    "harness, line protocol, independent Python GF(2) elimination",
]
ASSUMPTIONS = ["inputs are valid Clifford tableaux of pure states"]

LEAN_SPEC_MAX_N = 3  # the brute-force executable specification enumerates 2^n x 2^n products


def overlap_spec(a, b):
    """|<a|b>|^2 from the signed groups, by elimination: returns ('zero',) or ('k', k) with value 2^-k"""
    n = a.n_qubits
    ta = np.asarray(a.table).astype(int)
    tb = np.asarray(b.table).astype(int)
    xa, za, ra = ta[n:, :n], ta[n:, n:], np.asarray(a.phase)[n:]
    xb, zb, rb = tb[n:, :n], tb[n:, n:], np.asarray(b.phase)[n:]
    # elements of A that commute with all of B lie in B up to sign (B maximal): find a basis of {g in A : g commutes with B}
    # commutation matrix C[i,j] = sp(a_i, b_j); kernel of C^T over GF(2) (combinations of a-rows commuting with every b_j)
    c = (xa @ zb.T + za @ xb.T) % 2
    # left kernel of c: vectors v with v c = 0
    m = np.hstack([c.copy(), np.eye(n, dtype=int)])
    r = 0
    for col in range(n):
        piv = None
        for i in range(r, n):
            if m[i, col]:
                piv = i
                break
        if piv is None:
            continue
        m[[r, piv]] = m[[piv, r]]
        for i in range(n):
            if i != r and m[i, col]:
                m[i] ^= m[r]
        r += 1
    kernel = [m[i, n:] for i in range(n) if not m[i, :n].any()]
    # each kernel vector gives an element of A that is ±(an element of B): compare signs through B's canonical form
    canon_b = tu.span_canon(xb, zb, rb)
    for v in kernel:
        prod = (np.zeros(n, dtype=int), np.zeros(n, dtype=int), 0)
        for i in range(n):
            if v[i]:
                prod = tu._mul(prod, (xa[i].copy(), za[i].copy(), 2 * int(ra[i])))
        # adding prod to B's generators must not change the group if the sign agrees
        ext = tu.span_canon(np.vstack([xb, prod[0]]), np.vstack([zb, prod[1]]), np.append(rb, prod[2] // 2))
        if prod[2] % 2 == 1 or ext is None:
            return ("zero",)
        if ext != canon_b:
            return ("zero",)
    return ("k", n - len(kernel))


COV = None  # harness.c11.LineCov over inner_product / fidelity / canonical_form / inverse_circuit of the implementation (set in run())


def impl_fidelity(a, b):
    from graphiq.backends.stabilizer.functions import metric as sfm

    if COV is not None and a.n_qubits <= 8:
        with COV:
            f = sfm.fidelity(a.copy(), b.copy())
        COV.res.branch(COV.labels())
        return f
    return sfm.fidelity(a.copy(), b.copy())


def impl_infidelity(a, b):
    """(Infidelity(target=a).evaluate(b), Infidelity(target=a).evaluate(mixture {1/4: b, 3/4: a with one sign flipped}), expected mixture value)"""
    from graphiq.metrics import Infidelity
    from graphiq.state import QuantumState

    qa = QuantumState(a.copy(), rep_type="s")
    inf_pure = float(Infidelity(qa).evaluate(QuantumState(b.copy(), rep_type="s"), None))
    c = a.copy()
    c.phase[a.n_qubits] ^= 1  # the target with the sign of its first stabilizer generator flipped: orthogonal to the target
    qm = QuantumState(b.copy(), rep_type="s", mixed=True)
    qm.rep_data.mixture = [(0.25, b.copy()), (0.75, c)]
    qam = QuantumState(a.copy(), rep_type="s", mixed=True)  # target held as a one-component mixture
    inf_mix = float(Infidelity(qam).evaluate(qm, None))
    want_mix = 1.0 - (0.25 * fid_value(overlap_spec(a, b)) + 0.75 * fid_value(overlap_spec(a, c)))
    return inf_pure, inf_mix, want_mix


def fid_value(spec):
    return 0.0 if spec[0] == "zero" else 2.0 ** (-spec[1])


def check_pair(res, a, b, tag, pending, same=None):
    inp = {"a": tu.tab_args(a, "a"), "b": tu.tab_args(b, "b"), "case": tag}
    n = a.n_qubits
    res.evaluations += 1
    res.count("sizes", f"n={n}" if n <= 6 else "n>6")
    spec = overlap_spec(a, b)
    fails = []
    try:
        f_ab = float(impl_fidelity(a, b))  # a result that is not a real number (None, an array, a complex value) is reported here, not a crash below
        f_ba = float(impl_fidelity(b, a))
    except Exception as e:  # noqa: BLE001
        res.violation(f"fidelity:raises:{err_class(e)}", "fidelity raised (or did not return a real number) on valid stabilizer states", input=inp)
        return
    want = fid_value(spec)
    if abs(f_ab - want) > 1e-12:
        fails.append(("fidelity:wrong-value", f"fidelity {f_ab} differs from |<a|b>|^2 = {want}"))
    if abs(f_ab - f_ba) > 1e-12:
        fails.append(("fidelity:not-symmetric", f"fidelity(a,b)={f_ab} but fidelity(b,a)={f_ba}"))
    same_state = tu.stab_canon(a) == tu.stab_canon(b)
    if (abs(f_ab - 1.0) < 1e-12) != same_state:
        fails.append(("fidelity:one-iff-equal", f"fidelity={f_ab} but same_state={same_state}"))
    # graphiq.metrics.Infidelity on stabilizer targets (the consumer of this fidelity named in the property's anchors):
    # pure state against pure target, and a two-component mixture against the pure target (sum_i p_i F(T_i, T_t) = tr(rho rho_t));
    # expected values from the independent oracle, on every third pair
    if res.evaluations % 3 == 0 or tag in ("replay", "search"):
        try:
            inf_pure, inf_mix, want_mix = impl_infidelity(a, b)
            if abs(inf_pure - (1.0 - want)) > 1e-12:
                fails.append(("infidelity:wrong-value", f"Infidelity.evaluate = {inf_pure} but 1 - |<a|b>|^2 = {1.0 - want}"))
            if abs(inf_mix - want_mix) > 1e-12:
                fails.append(("infidelity:mixture-wrong-value", f"Infidelity.evaluate on a mixture = {inf_mix} but 1 - sum p_i |<a|b_i>|^2 = {want_mix}"))
        except Exception as e:  # noqa: BLE001
            fails.append((f"infidelity:raises:{err_class(e)}", "Infidelity.evaluate raised on valid stabilizer states"))
    if n <= 5:
        dense = float(np.real(np.trace(tu.dense_rho(a) @ tu.dense_rho(b))))
        if abs(dense - want) > 1e-9:
            res.violation("oracle:inconsistent", "harness oracle bug: elimination formula disagrees with dense overlap", input=inp, dense=dense, spec=str(spec))
            return
    # equality / canonical form
    from graphiq.backends.stabilizer.functions.stabilizer import canonical_form
    from graphiq.backends.stabilizer.state import Stabilizer

    try:
        eq = bool(Stabilizer(a.copy()) == Stabilizer(b.copy()))
        if eq != same_state:
            fails.append(("equality:wrong", f"Stabilizer.__eq__ = {eq} but the states are {'equal' if same_state else 'different'}"))
        ca = canonical_form(a.to_stabilizer())
    except Exception as e:  # noqa: BLE001
        fails.append((f"canonical_form:raises:{err_class(e)}", "canonical_form / __eq__ raised"))
        ca = None
    if ca is not None and su.stab_canon_of(ca) != tu.stab_canon(a):
        fails.append(("canonical_form:changes-state", "canonical_form changed the signed group"))
    try:
        sa, sb = a.to_stabilizer(), b.to_stabilizer()
    except Exception as e:  # noqa: BLE001 — the model lines below need the stabilizer halves: to_stabilizer() is total on a valid tableau
        res.violation(f"to_stabilizer:raises:{err_class(e)}", "CliffordTableau.to_stabilizer raised on a valid tableau", input=inp)
        return
    lines = [f"stab.ip {tu.tab_args(a, 'a')} {tu.tab_args(b, 'b')}", f"stab.ip {tu.tab_args(b, 'a')} {tu.tab_args(a, 'b')}",
             f"stab.canon {su.stab_args(sa)}", f"stab.inv {su.stab_args(sa)}",
             f"stab.inv {su.stab_args(sb)}",
             # the verified shape checker (isCanon_sound) on the canonical form the REAL code returned
             f"stab.iscanon {su.stab_args(ca if ca is not None else sa)}"]
    if n <= LEAN_SPEC_MAX_N:
        # the Lean specification predicates themselves (Orth, common subgroup), through their proved-exact executable versions
        lines.append(f"stab.overlap {su.stab_args(sa, 'a')} {su.stab_args(sb, 'b')}")
    pending.append((lines, inp, f_ab, f_ba, ca, spec, fails, same_state))


def flush(res, drv, pending):
    reps = drv.batch([ln for p in pending for ln in p[0]])
    k = 0
    for (ls, inp, f_ab, f_ba, ca, spec, fails, same_state) in pending:
        r_ab, r_ba, r_c, r_ia, r_ib, r_shape = reps[k : k + 6]
        r_ov = reps[k + 6] if len(ls) > 6 else None
        k += len(ls)
        if r_ov is not None:
            # formal specification (Lean `Orth` / `|A ∩ B|`, brute force) against the REAL fidelity
            if r_ov["_status"] != "ok":
                res.exact_break("stab.overlap:error", input=inp, impl=f_ab, model=r_ov["_raw"][:200])
            else:
                n_q = int(inp["a"].split()[0].split("=")[1])
                lean_val = 0.0 if r_ov.get("orth") == "1" else int(r_ov["common"]) / float(2 ** n_q)
                res.count("errors", "lean-spec-evaluated")
                if abs(lean_val - fid_value(spec)) > 1e-12:
                    res.violation("oracle:lean-spec-inconsistent", "the Lean specification (Orth / |A∩B|, evaluated by its executable version) "
                                  "disagrees with the harness's independent elimination oracle", input=inp, lean=r_ov["_raw"][:100], spec=str(spec))
                    continue
                if abs(lean_val - f_ab) > 1e-12 and not any(f[0] == "fidelity:wrong-value" for f in fails):
                    fails.append(("fidelity:wrong-value", f"fidelity {f_ab} differs from the Lean specification value {lean_val}"))
        res.nontrivial(inp["a"], inp["b"])
        res.branch([("zero" if spec[0] == "zero" else f"k={spec[1]}") + (":same" if same_state else "")])
        for rep, f, nm in ((r_ab, f_ab, "ab"), (r_ba, f_ba, "ba")):
            if rep["_status"] != "ok":
                res.exact_break("stab.ip:error-class", input=inp, impl=f, model=rep["_raw"][:200])
                continue
            mv = 0.0 if "zero" in rep["_raw"].split() else 2.0 ** (-int(rep["k"]))
            if abs(mv - f) > 1e-12:
                res.exact_break("stab.ip", input=inp, order=nm, impl=f, model=rep["_raw"][:200])
        if ca is not None:
            if r_c["_status"] != "ok" or su.reply_stab_tuple(r_c) != su.stab_tuple(ca):
                res.exact_break("stab.canon", input=inp, impl=su.stab_args(ca), model=r_c["_raw"][:800])
            if r_shape["_status"] != "ok" or r_shape.get("canon") != "1":
                # the proved postcondition of the model (canonical_form_returns_canon) does not hold of the real result
                res.exact_break("stab.iscanon", input=inp, impl=su.stab_args(ca), model=r_shape["_raw"][:200])
        for r_i in (r_ia, r_ib):
            if r_i["_status"] != "ok" or r_i.get("zero") != "1":
                # the model's synthesis did not return |0..0> on a valid state: contradicts `C11.inverse_circuit_complete`
                res.exact_break("stab.inv:model-not-zero", input=inp, impl="valid state", model=r_i["_raw"][:600])
        if fails:
            # D42 (repaired in graphiq 74abae4) used to be routed to a known finding here; every failure is an ordinary violation
            for key, clause in fails:
                res.violation(key, clause, input=inp)
        else:
            res.traces_validated += 1
    pending.clear()


def variants(t, rng):
    """the same state in another generating set / with other destabilizers, and a sign-flipped neighbour"""
    return su.regauge_clifford(t, rng)


def flip_sign(t, rng):
    u = t.copy()
    n = u.n_qubits
    u.phase[n + rng.randrange(n)] ^= 1
    return u


N_STATES = {1: 6, 2: 60, 3: 1080}  # number of n-qubit stabilizer states


def check_pool(res, n, states):
    """the pools behind "all ordered pairs" are enumerated with graphiq's own gate functions (BFS from |0..0>, de-duplicated by an independent
    canonical form): a changed gate function could silently shrink them while the evidence still says exhaustive"""
    bad = [t for t in states if not tu.is_valid(t)]
    if len(states) != N_STATES[n] or bad:
        res.exact_break(f"coverage collapsed: all_states({n})", input={"n": n},
                        impl=f"the enumeration through hadamard_gate / phase_gate / cnot_gate reached {len(states)} states ({len(bad)} not symplectic)",
                        model=f"{N_STATES[n]} stabilizer states")


# regression input: the witness of D42 (repaired in graphiq 74abae4); fidelity with itself was 0.5 before the repair
D42_WITNESS = "n=5 x=1011001100000010000000000 z=0010000011001101001001110 r=11010"


def run(ctx, budget=1.0):
    res = Result()
    res.rule = ("one evaluation = one ordered pair of stabilizer states (each in a random generating set with random destabilizers) through "
                "fidelity (both orders), equality and canonical_form; distinct by both full tableaux; pairs are drawn so that equal states in "
                "different gauges, sign-flipped neighbours, orthogonal and partially overlapping states all occur (branch histogram)")
    drv = Driver()
    rng = ctx.rng
    pending = []
    global COV
    from graphiq.backends.stabilizer.functions import metric as sfm_cov
    from graphiq.backends.stabilizer.functions import stabilizer as sfs_cov
    from harness.c11 import LineCov

    # line coverage of the real functions (sys.settrace, no hook in /repo): which branches the generated pairs reach
    try:
        COV = LineCov(sfm_cov.fidelity, sfm_cov.inner_product, sfs_cov.canonical_form, sfs_cov.inverse_circuit)
        COV.res = res
    except Exception as e:  # noqa: BLE001 — coverage is an observation (inspect.getsourcelines / __code__ fail on a decorated or compiled function)
        COV = None
        res.notes.append(f"line coverage of the real functions not available ({type(e).__name__}: {e})"[:200])
    # corpus: the witness of the repaired D42 against itself (re-gauged); must pass like any other pair
    from graphiq.backends.stabilizer.functions.rep_conversion import clifford_from_stabilizer  # noqa: F401
    from harness.c11 import stab_of_args

    # every stream runs under common.impl_guard: the generators (su.all_states, regauge_clifford, random_state, the gate functions, the
    # tableau constructors) call graphiq outside the `try` blocks of check_pair; an exception there is reported (exit 1), not exit 2
    with impl_guard(res, "corpus", promise=True):
        w = stab_of_args(D42_WITNESS)
        wt = _clifford_with_stab(w, rng)
        check_pair(res, wt, su.regauge_clifford(wt, rng), "corpus:D42", pending)
        flush(res, drv, pending)
    # exhaustive n<=2: all ordered pairs (36 + 3600); n=3 sampled (quick) / all 1080^2 is too slow in Python -> 40k pairs (thorough)
    s3 = []
    with impl_guard(res, "all-pairs", promise=True):
        for n in (1, 2):
            states = su.all_states(n)
            check_pool(res, n, states)
            for a in states:
                for b in states:
                    check_pair(res, su.regauge_clifford(a, rng), su.regauge_clifford(b, rng), f"all-pairs-n{n}", pending)
                flush(res, drv, pending)
        s3 = su.all_states(3)
        check_pool(res, 3, s3)
    with impl_guard(res, "n3-pairs", promise=True):
        for _ in range(int((400 if ctx.quick else 40000) * budget) if s3 else 0):
            a = rng.choice(s3)
            mode = rng.random()
            b = a if mode < 0.15 else (flip_sign(a, rng) if mode < 0.3 else rng.choice(s3))
            check_pair(res, su.regauge_clifford(a, rng), su.regauge_clifford(b, rng), "n3", pending)
            if len(pending) >= 100:
                flush(res, drv, pending)
        flush(res, drv, pending)
    with impl_guard(res, "random-pairs", promise=True):
        for _ in range(int((150 if ctx.quick else 3000) * budget)):
            n = rng.randrange(4, 9 if ctx.quick else 15)
            a = su.random_state(rng, n)
            mode = rng.random()
            if mode < 0.2:
                b = su.regauge_clifford(a, rng)
            elif mode < 0.35:
                b = su.regauge_clifford(flip_sign(a, rng), rng)
            elif mode < 0.7:
                # partially overlapping: apply a few gates to a
                from graphiq.backends.stabilizer.functions import transformation as tr

                b = a.copy()
                for _ in range(rng.randrange(1, 4)):
                    q = rng.randrange(n)
                    b = tr.hadamard_gate(b, q) if rng.random() < 0.5 else tr.phase_gate(b, q)
                b = su.regauge_clifford(b, rng)
            else:
                b = su.random_state(rng, n)
            check_pair(res, a, b, "random", pending)
            if len(pending) >= 60:
                flush(res, drv, pending)
        flush(res, drv, pending)
    with impl_guard(res, "low-x-rank-pairs", promise=True):
        # low X rank first arguments: the z_list branch of inverse_circuit's first block (the code repaired in 74abae4; D42 made
        # fidelity(a, a) = 0.5 exactly here) runs on most columns; generic random states almost never reach it
        from harness.c11 import low_x_rank_state

        for _ in range(int((80 if ctx.quick else 2000) * budget)):
            n = rng.randrange(3, 9 if ctx.quick else 13)
            a = low_x_rank_state(rng, n)
            mode = rng.random()
            if mode < 0.3:
                b = su.regauge_clifford(a, rng)
            elif mode < 0.5:
                b = su.regauge_clifford(flip_sign(a, rng), rng)
            elif mode < 0.8:
                b = low_x_rank_state(rng, n)
            else:
                b = su.random_state(rng, n)
            check_pair(res, a, b, "low-x-rank", pending)
            if len(pending) >= 60:
                flush(res, drv, pending)
        flush(res, drv, pending)
    res.exhaustive = not res.extra.get("streams_aborted")
    res.notes.append("exhaustive over all ordered pairs of stabilizer states for n<=2; sampled for n=3 and above")
    res.extra["driver_lines"] = drv.n_lines
    unreached = COV.unreached() if COV is not None else ["(line coverage not available)"]
    res.extra["unreached_lines"] = unreached
    res.notes.append("line coverage of the real fidelity/inner_product/canonical_form/inverse_circuit (sys.settrace, n<=8): per-line hit counts in "
                     "`branches`; " + ("every line was reached" if not unreached else "lines no generated pair reached: " + " | ".join(unreached)))
    COV = None
    drv.close()
    return res


def _clifford_with_stab(st, rng):
    """a valid CliffordTableau whose stabilizer group is the one generated by `st`, built WITHOUT inverse_circuit:
    search a random Clifford circuit state? no — use the model-independent construction: find the state among random
    Clifford tableaux is infeasible, so construct destabilizers by GF(2) linear algebra (solve sp(d_i, s_j) = delta_ij)."""
    from graphiq.backends.stabilizer.clifford_tableau import CliffordTableau

    n = st.n_qubits
    t = np.asarray(st.table).astype(int)
    x, z = t[:, :n], t[:, n:]
    # unknown d (2n bits) with  x_j . dz + z_j . dx = delta_ij ; solve n systems, then fix mutual commutation of the d's
    a = np.hstack([z, x])  # coefficients for (dx | dz)
    ds = []
    for i in range(n):
        rhs = np.zeros(n, dtype=int)
        rhs[i] = 1
        sol = _solve_gf2(a, rhs)
        ds.append(sol)
    ds = np.array(ds)
    dx, dz = ds[:, :n].copy(), ds[:, n:].copy()
    # make destabilizers commute with each other: d_i += sum_j c_ij s_j for i<j where c = sp(d_i, d_j)
    for i in range(n):
        for j in range(i + 1, n):
            if (dx[i] @ dz[j] + dz[i] @ dx[j]) % 2:
                dx[i] ^= x[j]
                dz[i] ^= z[j]
    table = np.block([[dx, dz], [x, z]])
    ph = np.concatenate([np.zeros(n, dtype=int), np.asarray(st.phase).astype(int)])
    out = CliffordTableau(table, ph)
    assert tu.is_valid(out)
    return out


def _solve_gf2(a, b):
    a = a.copy() % 2
    b = b.copy() % 2
    rows, cols = a.shape
    m = np.hstack([a, b.reshape(-1, 1)])
    piv_cols = []
    r = 0
    for c in range(cols):
        p = None
        for i in range(r, rows):
            if m[i, c]:
                p = i
                break
        if p is None:
            continue
        m[[r, p]] = m[[p, r]]
        for i in range(rows):
            if i != r and m[i, c]:
                m[i] ^= m[r]
        piv_cols.append(c)
        r += 1
        if r == rows:
            break
    sol = np.zeros(cols, dtype=int)
    for i, c in enumerate(piv_cols):
        sol[c] = m[i, -1]
    return sol


def search(ctx, res, proof_broken):
    drv = Driver()
    pending = []
    for n in (1, 2):
        states = su.all_states(n)
        for a in states:
            for b in states:
                check_pair(res, su.regauge_clifford(a, ctx.rng), su.regauge_clifford(b, ctx.rng), "search", pending)
        flush(res, drv, pending)
    drv.close()


def replay(ctx, data):
    v = data.get("violation") or {}
    inp = v.get("input") or {}
    if "a" not in inp:
        return None
    from graphiq.backends.stabilizer.clifford_tableau import CliffordTableau

    def tab_of(text, pfx):
        kv = dict(t.split("=", 1) for t in text.split())
        n = int(kv[pfx + "n"])
        table = np.hstack([tu.unbits(kv[pfx + "x"], (2 * n, n)), tu.unbits(kv[pfx + "z"], (2 * n, n))])
        t = CliffordTableau(table, tu.unbits(kv[pfx + "r"], (2 * n,)))
        t.iphase = tu.unbits(kv[pfx + "i"], (2 * n,))
        return t

    a, b = tab_of(inp["a"], "a"), tab_of(inp["b"], "b")
    res = Result()
    drv = Driver()
    pending = []
    check_pair(res, a, b, "replay", pending)
    flush(res, drv, pending)
    drv.close()
    for x in res.violations:
        print(x["key"], x["clause"])
    return not res.violations
