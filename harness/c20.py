"""
C20 — the single-qubit Clifford library is complete, closed and consistently ordered.

The gate lists and matrices of ops.py are tabulated into lean/GraphiqModel/Generated/CliffTables.lean on every run and the
property theorems are re-checked against them by the kernel (count, pairwise inequivalence, closure, every word simplifies
correctly, non-Clifford rejected, matrix/row bridge).  This harness ties the *algorithms* to the model:
  * `simplify_local_clifford` on ALL words of length <= 4 over {I,H,P,X,Y,Z} (1555) and all 24x24 concatenations vs the model;
  * `one_qubit_cliffords()` enumeration vs the model's list;
  * direct oracle on the float side: every result is a member whose unitary equals the product up to global phase (numpy);
    non-Clifford unitaries (T gate, random, near-Clifford perturbations) are rejected;
  * wrapper order: each of the 24 wrappers on an emitter and on a photon, compiled by both real backends on an entangled
    input, equals conjugation by the matrix product of the list (last listed gate acts first).
"""
import itertools

import numpy as np

from harness import tabutil as tu
from harness.common import Driver, Result, err_class, impl_guard

LEVEL = "proof"
TRUSTED_BASE = [
    "Lean 4.33 kernel (decide +kernel over the whole finite tables, no extra axioms)",
    "harness/gen_tables.py (tabulates ops.py's lists and matrices into Lean literals on every run)",
    "model Clifford1.lean's find/simplify tied to ops.py's float implementation by exhaustive comparison on 2131 words",
    "numpy reference for the float side (allclose tolerance of check_equivalent_unitaries)",
]
ASSUMPTIONS = ["floating-point equivalence test (np.allclose) is modelled by exact equality up to a scalar; matrices within 1e-8 of a Clifford count as that Clifford"]

NAMES = ["Identity", "Hadamard", "Phase", "SigmaX", "SigmaY", "SigmaZ"]


def mat_of(names):
    m = {"Identity": tu.I2, "Hadamard": tu.H, "Phase": tu.S, "SigmaX": tu.X, "SigmaY": tu.Y, "SigmaZ": tu.Z}
    r = np.eye(2, dtype=complex)
    for n in names:
        r = r @ m[n]
    return r


def equiv_up_to_phase(a, b):
    k = np.argmax(np.abs(b))
    ph = a.flat[k] / b.flat[k]
    return abs(abs(ph) - 1) < 1e-9 and np.allclose(a, ph * b, atol=1e-9)


def run(ctx, budget=1.0):
    import graphiq.circuit.ops as ops

    res = Result()
    res.rule = ("one evaluation = one word simplified / one matrix looked up / one wrapper compiled; the word table (all words of length <= 4 and "
                "all 24x24 concatenations) is enumerated completely on every run; non-trivial = word of length >= 2; distinct by the word")
    drv = Driver()
    rng = ctx.rng
    cls = {n: getattr(ops, n) for n in NAMES}
    # 1. enumeration
    rep = drv.ask("cliff.all24")
    model24 = [w.split(",") for w in rep["lists"].split("|")]
    try:
        impl24 = [[c.__name__ for c in w] for w in ops.one_qubit_cliffords()]
    except Exception as e:  # noqa: BLE001 — the enumeration is the subject of the property: raising is a violation, not a harness crash
        res.violation(f"enumeration:raises:{err_class(e)}", "one_qubit_cliffords() raised", input={"call": "one_qubit_cliffords()"}, impl=repr(e)[:200])
        res.extra["driver_lines"] = drv.n_lines
        drv.close()
        return res
    res.evaluations += 1
    if impl24 != model24:
        ok = len(impl24) == 24 and all(any(equiv_up_to_phase(mat_of(a), mat_of(b)) for b in impl24) for a in model24) and \
            all(not equiv_up_to_phase(mat_of(impl24[i]), mat_of(impl24[j])) for i in range(len(impl24)) for j in range(i))
        if ok:
            res.exact_break("one_qubit_cliffords", impl=str(impl24), model=str(model24))
        else:
            res.violation("enumeration:not-24-distinct", "one_qubit_cliffords() is not a list of 24 pairwise inequivalent unitaries", input={"impl": impl24})
    mats = [mat_of(w) for w in impl24]
    # closure on the float side
    for a, b in itertools.product(range(len(mats)), repeat=2):
        p = mats[a] @ mats[b]
        if not any(equiv_up_to_phase(p, m) for m in mats):
            res.violation("enumeration:not-closed", "product of two members is not a member up to phase", input={"a": impl24[a], "b": impl24[b]})
            break
    # 2. word table
    words = [list(w) for k in range(0, 5) for w in itertools.product(NAMES, repeat=k)]
    words += [a + b for a in impl24 for b in impl24]
    lines, items = [], []
    for w in words:
        res.evaluations += 1
        inp = {"word": w}
        try:
            out = [c.__name__ for c in ops.simplify_local_clifford([cls[n] for n in w])]
            impl = ",".join(out) if out else "-"
            if out not in impl24:
                res.violation("simplify:not-a-member", "simplify_local_clifford returned a list that is not one of the 24 members", input=inp, impl=impl)
            elif not equiv_up_to_phase(mat_of(out), mat_of(w)):
                res.violation("simplify:wrong-unitary", "the simplified list is not equal to the product of the word up to global phase", input=inp, impl=impl)
        except Exception as e:  # noqa: BLE001
            impl = "err " + err_class(e)
            res.violation(f"simplify:raises:{err_class(e)}", "simplify_local_clifford raised on a word over the elementary gates", input=inp)
        lines.append("cliff.simplify w=" + (",".join(w) if w else "-"))
        items.append((inp, impl))
        if len(w) >= 2:
            res.nontrivial(tuple(w))
    for r, (inp, impl) in zip(drv.batch(lines), items):
        got = r.get("g", "-") if r["_status"] == "ok" else "err " + r.get("_err", "")
        if got != impl:
            res.exact_break("cliff.simplify", input=inp, impl=impl, model=r["_raw"][:200])
        else:
            res.traces_validated += 1
    res.sample({"word": words[700], "impl": items[700][1]})
    # 2b. the library must hand out fresh lists: callers extend returned gate lists in place (wrapper merging does `ops + gate_list`,
    #     user code appends); scribble over every returned list, then look the words up again
    for w in words[:400]:
        try:
            out = ops.simplify_local_clifford([cls[n] for n in w])
            out.reverse()
            out.append(ops.Hadamard)
        except Exception:  # noqa: BLE001
            pass
    for w, (inp, impl) in list(zip(words, items))[:400]:
        res.evaluations += 1
        try:
            out2 = [c.__name__ for c in ops.simplify_local_clifford([cls[n] for n in w])]
            again = ",".join(out2) if out2 else "-"
        except Exception as e:  # noqa: BLE001
            again = "err " + err_class(e)
        if again != impl:
            res.violation("simplify:not-reproducible-after-caller-mutation", "simplifying the same word again returns a different list after a caller modified a previously returned list in place",
                          input=inp, first=impl, second=again)
            break
    # 3. non-Clifford rejected; Clifford with a random global phase accepted
    tgate = np.diag([1, np.exp(1j * np.pi / 4)])
    cands = [("T", tgate), ("sqrtH", _sqrtm(tu.H))]
    for k in range(int(40 * budget)):
        cands.append((f"haar{k}", _haar(ctx.np_rng())))
    for k in range(int(40 * budget)):
        base = mats[rng.randrange(24)]
        # clearly outside (>= 1e-4) or clearly inside (<= 1e-10) the allclose tolerance of check_equivalent_unitaries
        eps = 10 ** (-rng.uniform(2, 4)) if k % 4 else 10 ** (-rng.uniform(10, 12))
        cands.append((f"near{k}", base @ _rot(eps, rng)))
    for name, u in cands:
        res.evaluations += 1
        is_cliff = any(np.allclose(u, (u.flat[np.argmax(np.abs(m))] / m.flat[np.argmax(np.abs(m))]) * m, atol=1e-7) for m in mats)
        try:
            out = ops.find_local_clifford_by_matrix(u)
            if not is_cliff:
                res.violation("find:non-clifford-accepted", "a non-Clifford unitary was accepted", input={"case": name, "matrix": str(np.round(u, 6).tolist())},
                              impl=[c.__name__ for c in out])
        except ValueError:
            if is_cliff:
                res.violation("find:clifford-rejected", "a Clifford unitary was rejected", input={"case": name})
        except Exception as e:  # noqa: BLE001 — rejection is a ValueError; any other exception on a 2x2 unitary is the look-up failing
            res.violation(f"find:raises:{err_class(e)}", "find_local_clifford_by_matrix raised something other than its ValueError rejection on a 2x2 unitary",
                          input={"case": name, "matrix": str(np.round(u, 6).tolist())}, impl=repr(e)[:200])
        res.count("errors", "rejected" if not is_cliff else "accepted")
    for k in range(24):
        ph = np.exp(1j * rng.uniform(0, 2 * np.pi))
        res.evaluations += 1
        try:
            out = [c.__name__ for c in ops.find_local_clifford_by_matrix(ph * mats[k])]
            if out != impl24[k]:
                res.violation("find:wrong-member", "find_local_clifford_by_matrix returned a different member for a member times a global phase",
                              input={"member": impl24[k]}, impl=out)
        except Exception as e:  # noqa: BLE001
            res.violation(f"find:raises:{err_class(e)}", "find_local_clifford_by_matrix raised on a member times a phase", input={"member": impl24[k]})
    # 4. wrapper order in both backends
    with impl_guard(res, "wrapper", promise=True):
        wrapper_order(res, impl24, cls)
    res.exhaustive = not res.extra.get("streams_aborted")
    res.extra["driver_lines"] = drv.n_lines
    drv.close()
    return res


def _haar(g):
    z = (g.standard_normal((2, 2)) + 1j * g.standard_normal((2, 2))) / np.sqrt(2)
    q, r = np.linalg.qr(z)
    return q * (np.diag(r) / np.abs(np.diag(r)))


def _rot(eps, rng):
    ax = [tu.X, tu.Y, tu.Z][rng.randrange(3)]
    return np.cos(eps) * np.eye(2) - 1j * np.sin(eps) * ax


def _sqrtm(m):
    w, v = np.linalg.eig(m)
    return v @ np.diag(np.sqrt(w.astype(complex))) @ np.linalg.inv(v)


def wrapper_order(res, impl24, cls):
    """wrapper [A, B, ...] must act as the matrix product A·B·… (last listed first) in both compilers"""
    import graphiq.circuit.ops as ops
    from graphiq.backends.density_matrix.compiler import DensityMatrixCompiler
    from graphiq.backends.stabilizer.compiler import StabilizerCompiler
    from graphiq.circuit.circuit_dag import CircuitDAG

    import graphiq.noise.noise_models as nm

    extra = [["Phase", "Hadamard"], ["Hadamard", "Phase", "SigmaX"], ["SigmaY", "Phase", "Hadamard", "Phase"]]
    # how the wrapper carries noise descriptors (ideal compilation, noise simulation off, must ignore them): default, a list with one
    # entry per gate, one model for the whole wrapper placed after / before the gate
    variants = [("default", lambda k: None), ("per-gate-list", lambda k: [nm.NoNoise() for _ in range(k)]),
                ("single-after", lambda k: nm.DepolarizingNoise(0.1)), ("single-before", lambda k: _before(nm.DepolarizingNoise(0.1)))]
    for w in impl24 + extra:
      for vname, mk in variants:
        for reg_type in ("e", "p"):
            res.evaluations += 1
            inp = {"wrapper": w, "on": reg_type, "noise_descriptor": vname}
            try:
                c = CircuitDAG(n_emitter=1, n_photon=1, n_classical=0)
                c.add(ops.Hadamard(register=0, reg_type="e"))
                c.add(ops.Phase(register=0, reg_type="e"))
                c.add(ops.CNOT(control=0, control_type="e", target=0, target_type="p"))
                noise = mk(len(w))
                if noise is None:
                    c.add(ops.OneQubitGateWrapper([cls[n] for n in w], register=0, reg_type=reg_type))
                else:
                    c.add(ops.OneQubitGateWrapper([cls[n] for n in w], register=0, reg_type=reg_type, noise=noise))
            except Exception as e:  # noqa: BLE001 — building the wrapper on a valid register is part of the valid input
                res.violation(f"wrapper:build:raises:{err_class(e)}", "constructing / adding a wrapper over the elementary gates raised", input=inp, impl=repr(e)[:200])
                continue
            # reference: qubit order photon(0), emitter(1)
            n = 2
            rho = np.zeros((4, 4), dtype=complex)
            rho[0, 0] = 1
            for u in (tu.op_on(n, 1, tu.H), tu.op_on(n, 1, tu.S), tu.cnot_matrix(n, 1, 0), tu.op_on(n, 0 if reg_type == "p" else 1, mat_of(w))):
                rho = tu.conj(u, rho)
            try:
                dmc = DensityMatrixCompiler()
                dmc.measurement_determinism = 1
                dm = dmc.compile(c).rep_data.data
                stc = StabilizerCompiler()
                stc.measurement_determinism = 1
                st = stc.compile(c).rep_data.data
            except Exception as e:  # noqa: BLE001
                res.violation(f"wrapper:raises:{err_class(e)}", "compiling a wrapper raised", input=inp)
                continue
            if np.shape(dm) != rho.shape or not np.allclose(dm, rho, atol=1e-9):
                res.violation("wrapper:dm-order", "density-matrix backend does not apply the wrapper as the matrix product of its list", input=inp)
            if not (tu.is_binary(st) and st.n_qubits == n) or not np.allclose(tu.dense_rho(st), rho, atol=1e-9):
                res.violation("wrapper:stabilizer-order", "stabilizer backend does not apply the wrapper as the matrix product of its list", input=inp)
            if len(w) >= 2:
                res.nontrivial("wrapper", tuple(w), reg_type, vname)
            res.traces_validated += 1


def _before(noise):
    noise.noise_parameters["After gate"] = False
    return noise


def search(ctx, res, proof_broken):
    # the run is already exhaustive over the word table; nothing larger to explore
    return


def replay(ctx, data):
    v = data.get("violation") or {}
    inp = v.get("input") or {}
    if "word" in inp:
        import graphiq.circuit.ops as ops

        out = [c.__name__ for c in ops.simplify_local_clifford([getattr(ops, n) for n in inp["word"]])]
        print("simplify ->", out)
        return equiv_up_to_phase(mat_of(out), mat_of(inp["word"]))
    return None
