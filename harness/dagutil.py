"""
dagutil.py — shared code of the C12 / C18 harnesses: tokens of the `dag.*` driver protocol, the canonical observable
state of a live `CircuitDAG`, edit application, the *independent* structural oracle (`check_inv`) and the independent
metric computations (`ref_*`), and the edit generators.

Everything the oracle computes is computed from `circ.dag` / the op objects directly, never through graphiq helpers
(`validate`, `reg_gate_history`, `get_node_by_labels`, `depth`, …), and never through networkx algorithms.
"""
import re

from harness import common  # noqa: F401  (puts $REPO on sys.path)

MASK = (1 << 64) - 1


class RDriver:
    """model driver with one restart: the driver is stateless (every request carries its whole history), so a request
    lost to a dying driver process (observed once under memory pressure from parallel builds) can simply be re-sent"""

    def __init__(self):
        self.d = common.Driver()
        self.restarts = 0
        self.lines_before = 0

    @property
    def n_lines(self):
        return self.lines_before + self.d.n_lines

    def batch(self, lines):
        try:
            return self.d.batch(lines)
        except RuntimeError:
            self.lines_before += self.d.n_lines
            try:
                self.d.close()
            except Exception:  # noqa: BLE001
                pass
            self.d = common.Driver()
            self.restarts += 1
            return self.d.batch(lines)

    def ask(self, line):
        return self.batch([line])[0]

    def close(self):
        self.d.close()


def fnv64(s):
    h = 14695981039346656037
    for b in s.encode("utf-8"):
        h = ((h ^ b) * 1099511628211) & MASK
    return h


def emp(s):
    return s if s != "" else "*"


def ops_mod():
    import graphiq.circuit.ops as ops

    return ops


ONE_Q = ["Hadamard", "SigmaX", "SigmaY", "SigmaZ", "Phase", "PhaseDagger", "Identity", "RX", "RY", "RZ",
         "ParameterizedOneQubitRotation"]
TWO_Q = ["CNOT", "CZ", "ParameterizedControlledRotationQubit"]
CLASSICAL = ["ClassicalCNOT", "ClassicalCZ", "MeasurementCNOTandReset"]
ALL_CLASSES = ONE_Q + TWO_Q + CLASSICAL + ["OneQubitGateWrapper", "MeasurementZ", "Input", "Output"]


# ------------------------------------------------------------------------------------------------------------ tokens
def node_str(n):
    return str(n)


def edge_str(e):
    return f"{node_str(e[0])}>{node_str(e[1])}>{e[2]}"


def op_token(op):
    ops = ops_mod()
    q = ".".join(f"{t}{r}" for t, r in zip(op.q_registers_type, op.q_registers))
    c = ".".join(str(x) for x in op.c_registers)
    lab = ".".join(op.labels)
    inner = ".".join(k.__name__ for k in op.operations) if isinstance(op, ops.OneQubitGateWrapper) else ""
    return f"{type(op).__name__}:{emp(q)}:{emp(c)}:{emp(lab)}:{emp(inner)}"


def parse_reg(s):
    return s[0], int(s[1:])


def parse_node(s):
    return int(s) if s.isdigit() else s


def parse_edge(s):
    u, v, k = s.split(">")
    return (parse_node(u), parse_node(v), k)


def make_op(tok):
    """op token -> a fresh graphiq operation object (labels beyond the constructor's are added with add_labels)"""
    ops = ops_mod()
    name, q, c, lab, inner = tok.split(":")
    qs = [] if q == "*" else [parse_reg(x) for x in q.split(".")]
    cs = [] if c == "*" else [int(x) for x in c.split(".")]
    labs = [] if lab == "*" else lab.split(".")
    cls = getattr(ops, name)
    if name == "OneQubitGateWrapper":
        op = cls([getattr(ops, k) for k in inner.split(".")], register=qs[0][1], reg_type=qs[0][0])
    elif name in ("Input", "Output"):
        op = cls(register=(qs[0][1] if qs else cs[0]), reg_type=(qs[0][0] if qs else "c"))
    elif name == "MeasurementZ":
        op = cls(register=qs[0][1], reg_type=qs[0][0], c_register=cs[0])
    elif name in CLASSICAL:
        op = cls(control=qs[0][1], control_type=qs[0][0], target=qs[1][1], target_type=qs[1][0], c_register=cs[0])
    elif name in TWO_Q:
        op = cls(control=qs[0][1], control_type=qs[0][0], target=qs[1][1], target_type=qs[1][0])
    else:
        op = cls(register=qs[0][1], reg_type=qs[0][0])
    base = list(op.labels)
    extra = labs[len(base):] if labs[:len(base)] == base else [x for x in labs if x not in base]
    for x in extra:
        op.add_labels(x)
    return op


# edits are tuples: ("A", optok) ("I", optok, [edge tuples]) ("R", node) ("P", node, optok) ("U",) ("D",) ("G",) ("E", t, size)
def edit_token(ed):
    k = ed[0]
    if k == "A":
        return f"A/{ed[1]}"
    if k == "I":
        return f"I/{ed[1]}/{emp('+'.join(edge_str(e) for e in ed[2]))}"
    if k == "R":
        return f"R/{node_str(ed[1])}"
    if k == "P":
        return f"P/{node_str(ed[1])}/{ed[2]}"
    if k == "E":
        return f"E/{ed[1]}" if ed[2] == 1 else f"E/{ed[1]}/{ed[2]}"
    return k


def parse_edit(tok):
    f = tok.split("/")
    if f[0] == "A":
        return ("A", f[1])
    if f[0] == "I":
        return ("I", f[1], [] if f[2] == "*" else [parse_edge(x) for x in f[2].split("+")])
    if f[0] == "R":
        return ("R", parse_node(f[1]))
    if f[0] == "P":
        return ("P", parse_node(f[1]), f[2])
    if f[0] == "E":
        return ("E", f[1], int(f[2]) if len(f) > 2 else 1)
    return (f[0],)


def err_name(e):
    import networkx as nx

    if isinstance(e, nx.NetworkXError):
        return "NetworkXError"
    return common.err_class(e)


def apply_edit(circ, ed):
    """run one edit on the real CircuitDAG; returns the error class or None"""
    k = ed[0]
    try:
        if k == "A":
            circ.add(make_op(ed[1]))
        elif k == "I":
            circ.insert_at(make_op(ed[1]), list(ed[2]))
        elif k == "R":
            circ.remove_op(ed[1])
        elif k == "P":
            circ.replace_op(ed[1], make_op(ed[2]))
        elif k == "U":
            circ.unwrap_nodes()
        elif k == "D":
            circ.remove_identity()
        elif k == "G":
            circ.group_one_qubit_gates()
        elif k == "E":
            {"e": circ.add_emitter_register, "p": circ.add_photonic_register, "c": circ.add_classical_register}[ed[1]](size=ed[2])
        else:
            raise ValueError(k)
        return None
    except Exception as e:  # noqa: BLE001
        return err_name(e)


def new_circuit(ne, np_, nc):
    from graphiq.circuit.circuit_dag import CircuitDAG

    return CircuitDAG(n_emitter=ne, n_photon=np_, n_classical=nc)


def replay_edits(ne, np_, nc, edit_tokens):
    circ = new_circuit(ne, np_, nc)
    errs = []
    for t in edit_tokens:
        ed = parse_edit(t)
        if ed[0] == "C":
            circ = circ.copy()
            errs.append(None)
        else:
            errs.append(apply_edit(circ, ed))
    return circ, errs


# --------------------------------------------------------------------------------------------------- canonical state
def canon_parts(circ):
    """-> dict of the canonical strings (same format as the driver's) + list of representation problems"""
    g = circ.dag
    problems = []
    nodes = []
    for n in g.nodes:
        d = g.nodes[n]
        if "op" not in d:
            problems.append(f"node {n!r} has no op")
            continue
        nodes.append(f"{node_str(n)}~{op_token(d['op'])}")
    edges = []
    for u, v, k, d in g.edges(keys=True, data=True):
        if k != f"{d.get('reg_type')}{d.get('reg')}":
            problems.append(f"edge {(u, v, k)!r} carries attributes reg_type={d.get('reg_type')!r} reg={d.get('reg')!r}")
        edges.append(edge_str((u, v, k)))
    nd = [f"{lab}~{emp(','.join(sorted(node_str(x) for x in lst)))}" for lab, lst in circ.node_dict.items()]
    ed = [f"{t}~{emp(','.join(sorted(edge_str(x) for x in lst)))}" for t, lst in circ.edge_dict.items()]
    regs = circ._registers._registers
    for t in "epc":
        if any(x != 1 for x in regs[t]):
            problems.append(f"register sizes of type {t}: {regs[t]}")
    parts = {
        "nodes": emp(";".join(sorted(nodes))),
        "edges": emp(",".join(sorted(edges))),
        "nd": emp(";".join(sorted(nd))),
        "ed": emp(";".join(sorted(ed))),
        "regs": f"{len(regs['e'])},{len(regs['p'])},{len(regs['c'])}",
        "nid": str(circ._node_id),
    }
    return parts, problems


def canon_state(parts):
    return "|".join(parts[k] for k in ("nodes", "edges", "nd", "ed", "regs", "nid"))


# ------------------------------------------------------------------------------------------------------------ queries
def exc_str(f, fmt):
    try:
        return fmt(f())
    except Exception as e:  # noqa: BLE001
        return "!" + err_name(e)


def dots(l):
    return emp(".".join(str(int(x)) for x in l))


def metrics_str(circ, with_eff=True):
    """all metric classes evaluated on the real circuit -> same string as the driver's metricsStr (default penalties)"""
    import graphiq.metrics as met

    def ev(cls, **kw):
        def f():
            return cls(**kw).evaluate(None, circ)

        return f

    return ("depth." + exc_str(ev(met.CircuitDepth), str) + "/emit." + exc_str(ev(met.CircuitEmitterCount), str)
            + "/cnot." + exc_str(ev(met.CircuitCnotCount), str) + "/unit." + exc_str(ev(met.CircuitUnitaryCount), str)
            + "/meas." + exc_str(ev(met.CircuitMeasureCount), str) + "/med." + exc_str(ev(met.CircuitMaxEmitDepth), str)
            + "/reset." + exc_str(ev(met.CircuitMaxEmitResetDepth), str)
            + (("/eff." + exc_str(ev(met.CircuitMaxEmitEffDepth), str)) if with_eff else ""))


def all_regs(circ):
    regs = circ._registers._registers
    return [(t, i) for t in "epc" for i in range(len(regs[t]))]


def answer(circ, q):
    f = q.split("/")
    if f[0] == "d":
        return "d:" + exc_str(lambda: circ.depth, lambda x: str(int(x)))
    if f[0] == "r":
        return "r:" + exc_str(lambda: circ.register_depth, lambda d: "/".join(dots(d[t]) for t in "epc"))
    if f[0] == "v":
        def val():
            circ.validate()
            return "ok"
        try:
            return "v:" + val()
        except AssertionError:
            return "v:assertion"
        except RuntimeError:
            return "v:runtime"
        except Exception as e:  # noqa: BLE001 — any other class is an answer too (compared with the model / the oracle), not a harness crash
            return "v:!" + err_name(e)
    if f[0] == "h":
        out = []
        for t, i in all_regs(circ):
            out.append(f"{t}{i}~" + exc_str(lambda: circ.reg_gate_history(i, t)[1], lambda l: ".".join(node_str(x) for x in l)))
        return "h:" + emp("/".join(out))
    if f[0] == "x":
        e = parse_edge(f[1])
        return "x:" + exc_str(lambda: circ.find_incompatible_edges(e), lambda s: emp(".".join(sorted(edge_str(x) for x in s))))
    if f[0] == "l":
        labs = [] if f[1] == "*" else f[1].split(".")
        return "l:" + exc_str(lambda: circ.get_node_by_labels(labs), lambda l: emp(".".join(sorted(node_str(x) for x in l))))
    if f[0] == "e":
        labs = [] if f[1] == "*" else f[1].split(".")
        return "e:" + exc_str(lambda: circ.get_node_exclude_labels(labs), lambda l: emp(".".join(sorted(node_str(x) for x in l))))
    if f[0] == "m":
        return "m:" + metrics_str(circ)
    if f[0] == "n":
        return "n:" + metrics_str(circ, with_eff=False)
    return "?"


def answers(circ, qs):
    if qs == "*":
        return "*"
    return "+".join(answer(circ, q) for q in qs.split("+"))


# ------------------------------------------------------------------------------------------- independent structure oracle
def graph_lists(circ):
    g = circ.dag
    nodes = list(g.nodes)
    edges = [(u, v, k) for u, v, k in g.edges(keys=True)]
    return nodes, edges


def kahn_order(nodes, edges):
    """-> a topological order (list) or None if the graph has a cycle; own implementation"""
    indeg = {n: 0 for n in nodes}
    succ = {n: [] for n in nodes}
    for u, v, _ in edges:
        indeg[v] = indeg.get(v, 0) + 1
        succ.setdefault(u, []).append(v)
        indeg.setdefault(u, 0)
        succ.setdefault(v, [])
    ready = [n for n in indeg if indeg[n] == 0]
    order = []
    while ready:
        n = ready.pop()
        order.append(n)
        for v in succ[n]:
            indeg[v] -= 1
            if indeg[v] == 0:
                ready.append(v)
    return order if len(order) == len(indeg) else None


def longest_path_edges(nodes, edges):
    order = kahn_order(nodes, edges)
    if order is None:
        return None
    pred = {n: [] for n in order}
    for u, v, _ in edges:
        pred[v].append(u)
    dist = {}
    for n in order:
        dist[n] = max([dist[u] + 1 for u in pred[n]], default=0)
    return max(dist.values(), default=0), dist


IO_RE = re.compile(r"^([epc])(\d+)_(in|out)$")


def op_regs_of(op):
    return [f"{t}{r}" for t, r in zip(op.q_registers_type, op.q_registers)]


def expected_index_keys(op):
    return list(op.labels) + [type(op).__name__, op.parse_q_reg_types()]


def check_inv(circ, strict_classical=False):
    """DagInv of DESIGN §4 C12 evaluated directly on the implementation.  -> list of (key, clause)"""
    ops = ops_mod()
    bad = []
    g = circ.dag
    nodes, edges = graph_lists(circ)
    regs = {t: len(circ._registers._registers[t]) for t in "epc"}
    opof = {}
    for n in nodes:
        if "op" not in g.nodes[n]:
            bad.append(("nodes:no-op", f"node {n!r} carries no operation"))
            return bad
        opof[n] = g.nodes[n]["op"]
    # 1. acyclic
    if kahn_order(nodes, edges) is None:
        bad.append(("dag:cycle", "the circuit graph has a directed cycle"))
        return bad
    # 2. I/O nodes <-> registers
    ins = {t: set() for t in "epc"}
    outs = {t: set() for t in "epc"}
    for n in nodes:
        if isinstance(n, str):
            m = IO_RE.match(n)
            if not m:
                bad.append(("nodes:bad-id", f"unexpected node id {n!r}"))
                continue
            (ins if m.group(3) == "in" else outs)[m.group(1)].add(int(m.group(2)))
            want = ops.Input if m.group(3) == "in" else ops.Output
            if type(opof[n]) is not want:
                bad.append(("nodes:io-op", f"node {n} holds a {type(opof[n]).__name__}"))
        else:
            if isinstance(opof[n], ops.InputOutputOperationBase):
                bad.append(("nodes:io-op", f"integer node {n} holds an I/O operation"))
            if not (isinstance(n, int) and 1 <= n <= circ._node_id):
                bad.append(("nodes:id-range", f"node id {n!r} outside 1.._node_id={circ._node_id}"))
    for t in "epc":
        if ins[t] != set(range(regs[t])) or outs[t] != set(range(regs[t])):
            bad.append(("registers:io-count", f"register count of type {t} is {regs[t]} but input nodes {sorted(ins[t])}, output nodes {sorted(outs[t])}"))
    # 3. sources / sinks
    indeg = {n: 0 for n in nodes}
    outdeg = {n: 0 for n in nodes}
    for u, v, _ in edges:
        outdeg[u] += 1
        indeg[v] += 1
    for n in nodes:
        is_in = isinstance(n, str) and n.endswith("_in")
        is_out = isinstance(n, str) and n.endswith("_out")
        if (indeg[n] == 0) != is_in:
            bad.append(("dag:sources", f"node {n!r}: in-degree {indeg[n]}"))
        if (outdeg[n] == 0) != is_out:
            bad.append(("dag:sinks", f"node {n!r}: out-degree {outdeg[n]}"))
    # 4. wires
    by_key = {}
    for u, v, k in edges:
        by_key.setdefault(k, []).append((u, v))
    for k in by_key:
        m = re.match(r"^([epc])(\d+)$", str(k))
        if not m or int(m.group(2)) >= regs[m.group(1)]:
            bad.append(("wire:unknown-key", f"edges keyed {k!r} but no such register"))
    for t in "epc":
        for i in range(regs[t]):
            k = f"{t}{i}"
            es = by_key.get(k, [])
            nxt = {}
            ok = True
            for u, v in es:
                if u in nxt:
                    ok = False
                nxt[u] = v
            path = [f"{k}_in"]
            seen = {path[0]}
            while ok and path[-1] in nxt:
                n = nxt[path[-1]]
                if n in seen:
                    ok = False
                    break
                seen.add(n)
                path.append(n)
            if not ok or path[-1] != f"{k}_out" or len(path) - 1 != len(es):
                bad.append(("wire:not-a-path", f"edges keyed {k} do not form one path {k}_in -> {k}_out: {sorted(map(str, es))}"))
                continue
            on_wire = path[1:-1]
            if t != "c":
                acting = {n for n in nodes if not isinstance(n, str) and k in op_regs_of(opof[n])}
                if set(on_wire) != acting or len(set(on_wire)) != len(on_wire):
                    bad.append(("wire:wrong-ops", f"wire {k} visits {on_wire} but the operations acting on it are {sorted(acting)}"))
            else:
                for n in on_wire:
                    if isinstance(n, str) or i not in opof[n].c_registers:
                        bad.append(("wire:wrong-ops", f"classical wire {k} visits {n!r} which does not act on it"))
                if strict_classical:
                    acting = {n for n in nodes if not isinstance(n, str) and i in opof[n].c_registers}
                    if set(on_wire) != acting:
                        bad.append(("wire:wrong-ops", f"classical wire {k} visits {on_wire}, operations using it {sorted(acting)}"))
    # 5. indexes
    want_nd = {}
    for n in nodes:
        if isinstance(n, str):
            keys = ["Input" if n.endswith("_in") else "Output"]
        else:
            keys = expected_index_keys(opof[n])
        for key in keys:
            want_nd.setdefault(key, []).append(n)
    for key in set(want_nd) | set(circ.node_dict):
        a = sorted(map(str, want_nd.get(key, [])))
        b = sorted(map(str, circ.node_dict.get(key, [])))
        if a != b:
            bad.append(("index:node_dict", f"node_dict[{key!r}] = {b} but the graph gives {a}"))
    want_ed = {}
    for u, v, k in edges:
        want_ed.setdefault(g.edges[(u, v, k)]["reg_type"], []).append((u, v, k))
    for key in set(want_ed) | set(circ.edge_dict):
        a = sorted(map(edge_str, want_ed.get(key, [])))
        b = sorted(map(edge_str, circ.edge_dict.get(key, [])))
        if a != b:
            bad.append(("index:edge_dict", f"edge_dict[{key!r}] = {b} but the graph gives {a}"))
    return bad


def check_sequence(circ):
    """sequence() must list every node's operation exactly once, in an order in which every edge goes forward"""
    g = circ.dag
    bad = []
    try:
        seq = circ.sequence()
    except Exception as e:  # noqa: BLE001
        return [("sequence:raises", f"sequence() raised {type(e).__name__}")]
    pos = {}
    for i, op in enumerate(seq):
        pos.setdefault(id(op), []).append(i)
    node_pos = {}
    for n in g.nodes:
        p = pos.get(id(g.nodes[n]["op"]), [])
        if len(p) != 1:
            bad.append(("sequence:not-a-permutation", f"operation of node {n!r} occurs {len(p)} times in sequence()"))
            return bad
        node_pos[n] = p[0]
    if len(seq) != len(node_pos):
        bad.append(("sequence:not-a-permutation", f"sequence() has {len(seq)} entries for {len(node_pos)} nodes"))
    for u, v, k in g.edges(keys=True):
        if not node_pos[u] < node_pos[v]:
            bad.append(("sequence:not-topological", f"edge {edge_str((u, v, k))} goes backwards in sequence()"))
            break
    return bad


def ref_depths(circ):
    """independent depth / register depth from the graph: -> (depth, {t: [..]}) or None on a cycle"""
    nodes, edges = graph_lists(circ)
    r = longest_path_edges(nodes, edges)
    if r is None:
        return None
    L, dist = r
    regs = {t: len(circ._registers._registers[t]) for t in "epc"}
    # _max_depth(x) = (longest path from an input to x, in edges) - 1 ; input = -1
    rd = {t: [dist.get(f"{t}{i}_out", 0) - 1 for i in range(regs[t])] for t in "epc"}
    return L - 1, rd


def max_depth_cost(circ, cap=20000):
    """number of calls the un-memoised recursion `_max_depth` makes from all output nodes (capped)"""
    nodes, edges = graph_lists(circ)
    order = kahn_order(nodes, edges)
    if order is None:
        return cap + 1
    pred = {n: [] for n in nodes}
    for u, v, _ in edges:
        pred[v].append(u)
    cost = {}
    for n in order:
        cost[n] = 1 + sum(cost[u] for u in pred[n])
        if cost[n] > cap:
            return cap + 1
    tot = sum(cost[n] for n in nodes if isinstance(n, str) and n.endswith("_out"))
    return tot


def ref_incompatible(circ, first):
    """the set `find_incompatible_edges` is defined to return, from own reachability"""
    nodes, edges = graph_lists(circ)
    succ = {n: [] for n in nodes}
    pred = {n: [] for n in nodes}
    for u, v, _ in edges:
        succ[u].append(v)
        pred[v].append(u)

    def closure(start, rel):
        seen = set()
        st = list(rel[start])
        while st:
            n = st.pop()
            if n not in seen:
                seen.add(n)
                st.extend(rel[n])
        return seen

    anc = closure(first[0], pred)
    des = closure(first[1], succ)
    out = {first}
    for u, v, k in edges:
        if v == first[0] or u in anc or u == first[1] or u in des:
            out.add((u, v, k))
    return out


def reach(circ, a, b):
    """a ->* b (reflexive)"""
    if a == b:
        return True
    nodes, edges = graph_lists(circ)
    succ = {n: [] for n in nodes}
    for u, v, _ in edges:
        succ[u].append(v)
    seen = set()
    st = [a]
    while st:
        n = st.pop()
        if n == b:
            return True
        if n not in seen:
            seen.add(n)
            st.extend(succ[n])
    return False


# -------------------------------------------------------------------------------------------------------- generators
def one_q_token(name, t, r, labels=("one-qubit",), inner=()):
    return f"{name}:{t}{r}:*:{emp('.'.join(labels))}:{emp('.'.join(inner))}"


def two_q_token(name, c, t, creg=None):
    return f"{name}:{c[0]}{c[1]}.{t[0]}{t[1]}:{'*' if creg is None else creg}:two-qubit:*"


LABEL_POOL = ("mine", "tagA", "Hadamard")  # user labels; "Hadamard" collides with a class name on purpose (C12 only)


def rand_one_q(rng, t, r, allow_wrapper=True, extra_label_rate=0.05, label_pool=LABEL_POOL):
    w = rng.random()
    labels = ["one-qubit"]
    if rng.random() < extra_label_rate:
        labels.append(rng.choice(label_pool))
    if allow_wrapper and w < 0.22:
        inner = [rng.choice(ONE_Q[:7]) for _ in range(rng.randrange(1, 4))]
        return one_q_token("OneQubitGateWrapper", t, r, labels, inner)
    if w < 0.34:
        return one_q_token("Identity", t, r, labels)
    if w < 0.40:
        return one_q_token(rng.choice(ONE_Q[7:]), t, r, labels)
    return one_q_token(rng.choice(ONE_Q[:6]), t, r, labels)


def op_nodes(circ):
    return [n for n in circ.dag.nodes if not isinstance(n, str)]


def gen_edit(rng, circ, malformed=False, allow_measz=True, max_regs=6, label_pool=LABEL_POOL):
    """a (mostly valid) edit chosen from the implementation's current circuit"""
    regs = {t: len(circ._registers._registers[t]) for t in "epc"}
    qregs = [("e", i) for i in range(regs["e"])] + [("p", i) for i in range(regs["p"])]
    nreg = sum(regs.values())
    if malformed:
        k = rng.choice(["gap", "nedges", "rm-absent", "rep-absent", "rep-regs", "rep-cregs", "size", "noq"])
        if k == "gap":
            t = rng.choice("ep")
            tok = one_q_token("Hadamard", t, regs[t] + 1 + rng.randrange(2)) if rng.random() < 0.5 else \
                two_q_token("CNOT", ("e", regs["e"]), ("e", regs["e"] + 2))
            return ("A", tok) if rng.random() < 0.6 else ("I", tok, [])
        if k == "nedges" and qregs:
            t, r = rng.choice(qregs)
            return ("I", one_q_token("Phase", t, r), [])
        if k == "rm-absent":
            return ("R", rng.choice([circ._node_id + 1 + rng.randrange(3), f"e{regs['e'] + 1}_out"]))
        if k == "rep-absent":
            return ("P", circ._node_id + 2, one_q_token("Hadamard", "e", 0))
        if k == "rep-regs" and op_nodes(circ) and qregs:
            n = rng.choice(op_nodes(circ))
            t, r = rng.choice(qregs)
            return ("P", n, one_q_token("SigmaX", t, r + 1))
        if k == "rep-cregs":
            cl = [n for n in op_nodes(circ) if circ.dag.nodes[n]["op"].c_registers and len(circ.dag.nodes[n]["op"].q_registers) == 2]
            if cl:
                n = rng.choice(cl)
                op = circ.dag.nodes[n]["op"]
                qs = list(zip(op.q_registers_type, op.q_registers))
                return ("P", n, two_q_token(rng.choice(CLASSICAL), qs[0], qs[1], creg=op.c_registers[0] + 1))
        if k == "size":
            return ("E", rng.choice("epc"), rng.choice([0, 2, 3]))
        return ("A", "Input:*:0:*:*")
    w = rng.random()
    nodes = op_nodes(circ)
    if not qregs:
        return ("E", rng.choice("ep"), 1)
    # ---- add
    if w < 0.30 or not nodes:
        v = rng.random()
        if v < 0.45:
            t, r = rng.choice(qregs)
            if rng.random() < 0.08 and regs[t] < max_regs and nreg < 3 * max_regs:
                r = regs[t]  # a new register
            return ("A", rand_one_q(rng, t, r, label_pool=label_pool))
        if v < 0.80 and len(qregs) >= 2:
            a, b = rng.sample(qregs, 2)
            if rng.random() < 0.06 and regs[b[0]] < max_regs:
                b = (b[0], regs[b[0]])
            elif rng.random() < 0.03 and regs[a[0]] + 1 < max_regs:
                # both operands on new registers, given in descending order (valid: add() sorts before creating them)
                a, b = (a[0], regs[a[0]] + 1), (a[0], regs[a[0]])
            return ("A", two_q_token(rng.choice(TWO_Q[:2] if rng.random() < 0.9 else TWO_Q), a, b))
        if v < 0.95 and len(qregs) >= 2:
            a, b = rng.sample(qregs, 2)
            c = rng.randrange(regs["c"] + 1) if regs["c"] < max_regs else rng.randrange(regs["c"])
            return ("A", two_q_token(rng.choice(CLASSICAL), a, b, creg=c))
        if allow_measz:
            t, r = rng.choice(qregs)
            c = rng.randrange(regs["c"] + 1) if regs["c"] < max_regs else rng.randrange(max(1, regs["c"]))
            return ("A", f"MeasurementZ:{t}{r}:{c}:one-qubit:*")
        t, r = rng.choice(qregs)
        return ("A", rand_one_q(rng, t, r, label_pool=label_pool))
    # ---- insert_at
    if w < 0.55:
        q_edges = [e for t in "ep" for e in circ.edge_dict.get(t, [])]
        if rng.random() < 0.55 or len(q_edges) < 2:
            e = rng.choice(q_edges)
            t, r = parse_reg(e[2])
            return ("I", rand_one_q(rng, t, r, label_pool=label_pool), [e])
        for _ in range(8):
            e1 = rng.choice(q_edges)
            inc = circ.find_incompatible_edges(e1)
            cands = [e for e in q_edges if e not in inc and e[2] != e1[2]]
            if cands:
                e2 = rng.choice(cands)
                a, b = parse_reg(e1[2]), parse_reg(e2[2])
                if rng.random() < 0.2 and regs["c"] > 0:
                    return ("I", two_q_token(rng.choice(CLASSICAL), a, b, creg=rng.randrange(regs["c"])), [e1, e2])
                return ("I", two_q_token(rng.choice(TWO_Q[:2]), a, b), [e1, e2])
        e = rng.choice(q_edges)
        t, r = parse_reg(e[2])
        return ("I", rand_one_q(rng, t, r, label_pool=label_pool), [e])
    # ---- remove
    if w < 0.70:
        return ("R", rng.choice(nodes))
    # ---- replace
    if w < 0.80:
        n = rng.choice(nodes)
        op = circ.dag.nodes[n]["op"]
        qs = list(zip(op.q_registers_type, op.q_registers))
        if len(qs) == 1 and not op.c_registers:
            return ("P", n, rand_one_q(rng, qs[0][0], qs[0][1], label_pool=label_pool))
        if len(qs) == 2 and not op.c_registers:
            return ("P", n, two_q_token(rng.choice(TWO_Q[:2]), qs[0], qs[1]))
        if len(qs) == 2:
            return ("P", n, two_q_token(rng.choice(CLASSICAL), qs[0], qs[1], creg=op.c_registers[0]))
        return ("P", n, f"MeasurementZ:{qs[0][0]}{qs[0][1]}:{op.c_registers[0]}:one-qubit:*")
    if w < 0.85:
        return ("U",)
    if w < 0.90:
        return ("D",)
    if w < 0.95:
        return ("G",)
    if w < 0.965:
        return ("C",)
    t = rng.choice("epc")
    if regs[t] < max_regs:
        return ("E", t, 1)
    return ("D",)


def has_measz(circ):
    return bool(circ.node_dict.get("MeasurementZ"))
