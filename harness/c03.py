"""
C03 — emitter budget: the height function equals the bipartite entanglement entropy.

Correspondence: `height_func_list`, `height_max`, `height_dict`, `rref` on the real implementation vs the Lean model (`stab.height`,
`stab.rref`), compared exactly.
Direct oracle (independent of rref): for every cut k, S(0..k | rest) = rank_GF(2)(M_A) - |A| with M_A the x- and z-columns of qubits
0..k (so it is gauge independent by construction); for graph states rank of the adjacency block A x B.  The deterministic solver must
allocate exactly max_k height emitters and emit each photon exactly once (one emitter->photon CNOT per photon).
"""
import itertools

import numpy as np

from harness import stabutil as su
from harness import tabutil as tu
from harness.common import Driver, Result, err_class, impl_guard

LEVEL = "proof"
TRUSTED_BASE = [
    "Lean 4.33 kernel",
    "hand-written model GraphiqModel/Model/StabTableau.lean (rref with its eight cases, height_func_list) tied to stabilizer.py/height.py by this correspondence run",
    "entanglement entropy of a cut of a stabilizer state = |B| - dim G_B (Fattal et al.): now proved in spectral form (C03.height_is_entanglement_entropy: "
    "the reduced state is 2^-h times a projector of rank 2^h; no matrix-logarithm entropy functional is defined); that height_func_list "
    "computes exactly these numbers (and the adjacency-block rank for graph states) is proved (C03.height_is_entropy_value, height_is_rank_minus_size, "
    "graph_height_is_cut_rank); minimality of max-height emitters for the emission order (Li, Economou, Barnes) is cited, not proved",
    "harness, line protocol, independent Python GF(2) rank",
]
ASSUMPTIONS = ["generating sets are independent and commuting; dependent sets are the malformed stream (error-class comparison only)"]


def check_state(res, st, tag, pending, graph_adj=None):
    from graphiq.backends.stabilizer.functions import height as hf

    n = st.n_qubits
    t = np.asarray(st.table).astype(int)
    x, z = t[:, :n].copy(), t[:, n:].copy()
    inp = {"stab": su.stab_args(st), "case": tag}
    res.evaluations += 1
    res.count("sizes", f"n={n}" if n <= 6 else ("n<=20" if n <= 20 else "n>20"))
    spec = su.height_spec(x, z)
    try:
        h = [int(v) for v in hf.height_func_list(x.copy(), z.copy())]
        hmax = int(hf.height_max(x.copy(), z.copy()))
        hd = hf.height_dict(x.copy(), z.copy())
        hd = {int(k): int(v) for k, v in dict(hd).items()}  # a result that is not a mapping of integers is reported here, not a harness crash
    except Exception as e:  # noqa: BLE001
        res.violation(f"height:raises:{err_class(e)}", "height function raised (or returned something that is not a list / dictionary of integers) on a valid generating set", input=inp)
        return
    if h != spec:
        res.violation("height:not-entropy", f"height_func_list {h} differs from the bipartite entanglement entropy {spec}", input=inp)
    if hmax != max([0] + spec):
        res.violation("height_max:wrong", f"height_max {hmax} != max entropy {max([0] + spec)}", input=inp)
    if [int(hd[k]) for k in sorted(hd)] != [0] + spec or sorted(hd) != list(range(-1, n)):
        res.violation("height_dict:wrong", "height_dict does not map -1 -> 0 and k -> height(k)", input=inp, impl=str(hd))
    if graph_adj is not None:
        rk = [su.rank_gf2(graph_adj[: k + 1, k + 1:]) if k + 1 < n else 0 for k in range(n)]
        if h != rk:
            res.violation("height:not-adjacency-rank", f"height {h} differs from the GF(2) rank of the adjacency blocks {rk}", input=inp)
    pending.append((f"stab.height {su.stab_args(st)}", inp, h, hmax))


def flush(res, drv, pending):
    reps = drv.batch([p[0] for p in pending])
    for rep, (ln, inp, h, hmax) in zip(reps, pending):
        if any(v > 0 for v in h):
            res.nontrivial(inp["stab"])
        if rep["_status"] != "ok":
            res.exact_break("stab.height:error-class", input=inp, impl=str(h), model=rep["_raw"][:200])
            continue
        mh = [int(v) for v in rep["h"].split(",")] if rep["h"] != "-" else []
        if mh != h or int(rep["max"]) != hmax:
            res.exact_break("stab.height", input=inp, impl=str(h), model=rep["_raw"][:400])
        else:
            res.traces_validated += 1
    pending.clear()


def rref_cases(res, drv, rng, states):
    from graphiq.backends.stabilizer.functions.stabilizer import rref

    lines, items = [], []
    ech_lines, ech_items = [], []
    for st in states:
        inp = {"stab": su.stab_args(st)}
        res.evaluations += 1
        try:
            out = rref(st.copy())
            impl = su.stab_tuple(out)
            if su.stab_canon_of(out) != su.stab_canon_of(st):
                res.violation("rref:changes-group", "rref changed the signed stabilizer group", input=inp, impl=su.stab_args(out))
            # the post-condition proved of the model's rref (Echelon / STab.echelonB), evaluated by the verified predicate on the
            # tableau the real code returned
            ech_lines.append(f"stab.echelon {su.stab_args(out)}")
            ech_items.append((inp, su.stab_args(out)))
        except Exception as e:  # noqa: BLE001
            impl = "err " + err_class(e)
        lines.append(f"stab.rref {su.stab_args(st)}")
        items.append((inp, impl))
    for rep, (inp, out_args) in zip(drv.batch(ech_lines), ech_items):
        if rep["_status"] != "ok" or rep.get("ech") != "1":
            res.violation("rref:not-echelon", "the tableau returned by rref is not in echelon form (leading sites non-decreasing, "
                          "at most two generators per leading site, with different Paulis there)", input=inp, impl=out_args)
        else:
            res.traces_validated += 1
    for rep, (inp, impl) in zip(drv.batch(lines), items):
        if rep["_status"] == "ok":
            res.branch(rep.get("br", "-").split(","))
            got = su.reply_stab_tuple(rep)
        else:
            got = "err " + rep.get("_err", "")
        if got != impl:
            res.exact_break("stab.rref", input=inp, impl=str(impl)[:400], model=rep["_raw"][:400])


def malformed(res, drv, rng, count):
    from graphiq.backends.stabilizer.functions import height as hf
    from graphiq.backends.stabilizer.tableau import StabilizerTableau

    lines, items = [], []
    for _ in range(count):
        n = rng.randrange(1, 6)
        st = su.random_state(rng, n).to_stabilizer()
        t = np.asarray(st.table).copy()
        if n >= 2 and rng.random() < 0.6:
            i, j = rng.sample(range(n), 2)
            t[i] = t[j]
        else:
            t[rng.randrange(n)] = 0
        bad = StabilizerTableau(t, st.phase)
        try:
            impl = "ok " + ",".join(str(int(v)) for v in hf.height_func_list(t[:, :n].copy(), t[:, n:].copy()))
        except Exception as e:  # noqa: BLE001
            impl = "err " + err_class(e)
        res.evaluations += 1
        res.count("errors", impl.split()[0] + " " + (impl.split()[1] if impl.startswith("err") else ""))
        lines.append(f"stab.height {su.stab_args(bad)}")
        items.append((su.stab_args(bad), impl))
    for rep, (inp, impl) in zip(drv.batch(lines), items):
        got = ("ok " + rep["h"]) if rep["_status"] == "ok" else "err " + rep.get("_err", "")
        if got != impl:
            res.exact_break("stab.height:malformed", input=inp, impl=impl, model=rep["_raw"][:200])


def graph_state_stab(adj):
    from graphiq.backends.stabilizer.tableau import StabilizerTableau

    n = adj.shape[0]
    return StabilizerTableau([np.eye(n, dtype=int), adj.astype(int)])


def all_adj(n):
    pairs = list(itertools.combinations(range(n), 2))
    for mask in range(1 << len(pairs)):
        a = np.zeros((n, n), dtype=int)
        for i, (u, v) in enumerate(pairs):
            if mask >> i & 1:
                a[u, v] = a[v, u] = 1
        yield a


def solver_budget(res, rng, graphs):
    """the deterministic solver allocates exactly max height emitters and emits each photon exactly once"""
    import networkx as nx
    from graphiq.backends.stabilizer.compiler import StabilizerCompiler
    from graphiq.circuit import ops
    from graphiq.metrics import Infidelity
    from graphiq.solvers.time_reversed_solver import TimeReversedSolver
    from graphiq.state import QuantumState

    for adj in graphs:
        n = adj.shape[0]
        g = nx.from_numpy_array(adj)
        if any(d == 0 for _, d in g.degree()) :
            continue  # D3 (known finding of C02): targets with an isolated vertex crash the solver
        inp = {"adjacency": tu.bits(adj), "n": n}
        res.evaluations += 1
        try:
            target = QuantumState(g, rep_type="graph")
            solver = TimeReversedSolver(target=target, metric=Infidelity(target), compiler=StabilizerCompiler())
            solver.solve()
            _, circuit = solver.result
        except Exception as e:  # noqa: BLE001
            res.violation(f"solver:raises:{err_class(e)}", "TimeReversedSolver raised on a graph without isolated vertices", input=inp)
            continue
        spec = max([0] + su.height_spec(np.eye(n, dtype=int), adj))
        if circuit.n_emitters != spec:
            res.violation("solver:emitter-count", f"solver allocated {circuit.n_emitters} emitters, max height is {spec}", input=inp)
        emis = {}
        for op in circuit.sequence():
            if isinstance(op, ops.CNOT) and op.control_type == "e" and op.target_type == "p":
                emis[op.target] = emis.get(op.target, 0) + 1
        if circuit.n_photons != n or sorted(emis) != list(range(n)) or any(v != 1 for v in emis.values()):
            res.violation("solver:emission-count", f"photons are not emitted exactly once each: {emis}", input=inp)
        res.nontrivial("solver", inp["adjacency"])
        res.branch([f"solver:ne={spec}"])


N_STATES = {1: 6, 2: 60, 3: 1080}  # number of n-qubit stabilizer states: 2^n * prod_{k=1..n} (2^k + 1)


def check_pool(res, n):
    """the 'exhaustive' pools are enumerated with graphiq's own gate functions (BFS from |0..0>, de-duplicated by an independent
    canonical form): if a gate function changes, the pool can silently shrink while the evidence still says exhaustive"""
    pool = su.all_states(n)
    bad = [t for t in pool if not tu.is_valid(t)]
    if len(pool) != N_STATES[n] or bad:
        res.exact_break(f"coverage collapsed: all_states({n})", input={"n": n},
                        impl=f"the enumeration through hadamard_gate / phase_gate / cnot_gate reached {len(pool)} states ({len(bad)} not symplectic)",
                        model=f"{N_STATES[n]} stabilizer states")


def run(ctx, budget=1.0):
    import networkx as nx

    res = Result()
    res.rule = ("one evaluation = one generating set (state x gauge x qubit order) through height_func_list/height_max/height_dict (+ rref), or "
                "one target graph through the solver's emitter budget; non-trivial = some cut has non-zero entropy; distinct by full generator matrix")
    drv = Driver()
    rng = ctx.rng
    pending = []
    nmax_ex = 2 if ctx.quick else 3
    regs = 4 if ctx.quick else 8
    # every stream runs under common.impl_guard: the generators are built from graphiq's own constructors and gate functions
    # (su.all_states, su.random_state, StabilizerTableau(...)); an exception of graphiq there, or in a helper called outside the try
    # blocks, is reported (exit 1) instead of leaving run() as a harness crash (exit 2)
    with impl_guard(res, "height:all-states", promise=True):
        for n in range(1, nmax_ex + 1):
            check_pool(res, n)
            for t in su.all_states(n):
                for _ in range(regs):
                    check_state(res, su.regauge_stab(su.regauge_clifford(t, rng).to_stabilizer(), rng), f"all-states-n{n}", pending)
            flush(res, drv, pending)
        if ctx.quick:
            check_pool(res, 3)
            for t in rng.sample(su.all_states(3), 200):
                check_state(res, su.regauge_stab(t.to_stabilizer(), rng), "sample-n3", pending)
            flush(res, drv, pending)
    # graphs: all graphs, in the graph gauge and re-gauged, all vertex orders for n<=4 (thorough) / identity order (quick)
    with impl_guard(res, "height:graphs", promise=True):
        for n in range(1, 5 if ctx.quick else 6):
            for adj in all_adj(n):
                orders = list(itertools.permutations(range(n))) if (n <= 3 or (not ctx.quick and n <= 4)) else [tuple(rng.sample(range(n), n)) for _ in range(2)]
                for p in orders:
                    a = adj[np.ix_(p, p)]
                    st = graph_state_stab(a)
                    check_state(res, st, f"graph-n{n}", pending, graph_adj=a)
                    if rng.random() < 0.3:
                        check_state(res, su.regauge_stab(st, rng), f"graph-regauged-n{n}", pending, graph_adj=a)
            flush(res, drv, pending)
    with impl_guard(res, "height:random", promise=True):
        for _ in range(int((60 if ctx.quick else 600) * budget)):
            n = rng.randrange(4, 13 if ctx.quick else 41)
            check_state(res, su.regauge_stab(su.random_state(rng, n).to_stabilizer(), rng), "random", pending)
            if rng.random() < 0.5:
                a = nx.to_numpy_array(nx.gnp_random_graph(n, rng.random(), seed=rng.getrandbits(30))).astype(int)
                check_state(res, su.regauge_stab(graph_state_stab(a), rng), "random-graph", pending, graph_adj=None)
                check_state(res, graph_state_stab(a), "random-graph", pending, graph_adj=a)
            if len(pending) > 60:
                flush(res, drv, pending)
        flush(res, drv, pending)
    with impl_guard(res, "rref"):
        rref_cases(res, drv, rng, [su.regauge_stab(su.random_state(rng, rng.randrange(1, 9)).to_stabilizer(), rng) for _ in range(150 if ctx.quick else 1500)])
    with impl_guard(res, "height:malformed"):
        malformed(res, drv, rng, 60)
    # solver emitter budget
    graphs = [a for n in range(2, 5) for a in all_adj(n)]
    graphs += [nx.to_numpy_array(nx.gnp_random_graph(rng.randrange(4, 9), 0.3 + 0.6 * rng.random(), seed=rng.getrandbits(30))).astype(int)
               for _ in range(25 if ctx.quick else 300)]
    with impl_guard(res, "solver", promise=True):
        solver_budget(res, rng, graphs)
    with impl_guard(res, "graph-path", promise=True):
        graph_path(res, rng, 120 if ctx.quick else 1500)
    res.exhaustive = not res.extra.get("streams_aborted")
    res.notes.append(f"exhaustive over all stabilizer states n<={nmax_ex} (x{regs} gauges) and all graphs on <= {4 if ctx.quick else 5} vertices (all vertex orders n<=3)")
    res.extra["driver_lines"] = drv.n_lines
    drv.close()
    return res


def graph_path(res, rng, count):
    """the *graph* entry points: `height_dict(graph=g)`, `height_max(graph=g)` on networkx objects (node names other than 0..n-1, insertion
    order different from the sorted order — the library's convention is: qubit k = k-th node of `g.nodes`), and `emitter_sorted` of
    relabel_module (a list of adjacency matrices sorted by the emitter number = height maximum).  Oracle: GF(2) rank of the adjacency block
    joining the two sides of every cut, computed here; cross-check with `height_func_list` on the library's own tableau of the same graph and
    with the deterministic solver's emitter count.  Graphs with >= 6 vertices are included because real rank and GF(2) rank first differ there."""
    import networkx as nx
    from graphiq.backends.stabilizer.functions import height as hf
    from graphiq.backends.stabilizer.functions.rep_conversion import get_stabilizer_tableau_from_graph
    from graphiq.utils.relabel_module import emitter_sorted

    def cut_ranks(a):
        n = len(a)
        return [su.rank_gf2(a[: k + 1, k + 1:]) if k + 1 < n else 0 for k in range(n)]

    for i in range(count):
        n = rng.randrange(2, 9) if i % 3 else rng.randrange(6, 9)
        a = nx.to_numpy_array(nx.gnp_random_graph(n, rng.uniform(0.2, 0.9), seed=rng.getrandbits(30))).astype(int)
        order = rng.sample(range(n), n) if rng.random() < 0.7 else list(range(n))
        off = rng.choice([0, 0, 1, 7])
        g = nx.Graph()
        g.add_nodes_from(k + off for k in order)
        g.add_edges_from((u + off, v + off) for u in range(n) for v in range(u + 1, n) if a[u, v])
        own = nx.to_numpy_array(g).astype(int)          # adjacency in the graph's own node order
        want = cut_ranks(own)
        inp = {"case": "graph-object", "n": n, "adjacency": "".join(str(int(v)) for v in a.flatten()), "node_order": [k + off for k in order]}
        res.evaluations += 1
        res.count("branches", "graph-path:" + ("scrambled" if order != list(range(n)) else "sorted") + (":offset" if off else ""))
        try:
            hd = hf.height_dict(graph=g)
            hm = int(hf.height_max(graph=g))
            st = get_stabilizer_tableau_from_graph(g)
            t = np.asarray(st.table).astype(int)
            hl = [int(v) for v in hf.height_func_list(t[:, :n].copy(), t[:, n:].copy())]
        except Exception as e:  # noqa: BLE001
            res.violation(f"height:graph:raises:{err_class(e)}", "height function raised on a graph object", input=inp)
            continue
        got = [int(hd[k]) for k in sorted(hd)][1:]
        if got != want or sorted(hd) != list(range(-1, n)):
            res.violation("height_dict:graph:not-adjacency-rank", f"height_dict(graph=g) gives {got}, GF(2) cut ranks of g in its own node order are {want}", input=inp)
        if hm != max([0] + want):
            res.violation("height_max:graph:wrong", f"height_max(graph=g) = {hm}, maximum cut rank = {max([0] + want)}", input=inp)
        if hl != want:
            res.violation("height:graph-tableau:not-adjacency-rank", f"height_func_list on the library's tableau of g gives {hl}, cut ranks {want}", input=inp)
        if any(want):
            res.nontrivial("graph-path", inp["adjacency"], tuple(inp["node_order"]))
    # emitter_sorted: every entry carries the height maximum of its matrix (GF(2)), and the list is sorted by it
    def odd_block_graph(n):
        # a cut whose adjacency block contains J - I (3x3): rank 3 over the reals, rank 2 over GF(2)
        a = nx.to_numpy_array(nx.gnp_random_graph(n, rng.uniform(0.1, 0.6), seed=rng.getrandbits(30))).astype(int)
        k = rng.randrange(2, n - 3)
        left, right = rng.sample(range(k + 1), 3), rng.sample(range(k + 1, n), 3)
        for i, u in enumerate(left):
            for j, v in enumerate(right):
                a[u, v] = a[v, u] = int(i != j)
        return a

    ring6 = nx.to_numpy_array(nx.cycle_graph(6)).astype(int)[np.ix_([0, 2, 4, 1, 3, 5], [0, 2, 4, 1, 3, 5])]
    for i in range(max(12, count // 2)):
        n = rng.randrange(6, 9) if i % 4 else rng.randrange(3, 7)
        adjs = []
        base = odd_block_graph(n) if (i % 3 == 0 and n >= 6) else nx.to_numpy_array(nx.gnp_random_graph(n, rng.uniform(0.3, 0.8), seed=rng.getrandbits(30))).astype(int)
        if i == 1:
            base, n = ring6, 6
            adjs.append(ring6)
        elif i % 3 == 0:
            adjs.append(base)
        for _ in range(rng.randrange(2, 7)):
            p = rng.sample(range(n), n)
            adjs.append(base[np.ix_(p, p)])
        inp = {"case": "emitter_sorted", "n": n, "adjacencies": ["".join(str(int(v)) for v in x.flatten()) for x in adjs]}
        res.evaluations += 1
        try:
            out = emitter_sorted(np.array(adjs))
        except Exception as e:  # noqa: BLE001
            res.violation(f"emitter_sorted:raises:{err_class(e)}", "emitter_sorted raised on a list of adjacency matrices", input=inp)
            continue
        nums = [int(k) for _, k in out]
        true = [max([0] + cut_ranks(np.asarray(m).astype(int))) for m, _ in out]
        if nums != true:
            res.violation("emitter_sorted:wrong-emitter-number", f"emitter_sorted reports {nums}, height maxima (GF(2) cut ranks) are {true}", input=inp)
        elif nums != sorted(nums) or len(out) != len(adjs):
            res.violation("emitter_sorted:not-sorted", f"emitter_sorted result {nums} is not sorted / complete", input=inp)
        res.count("branches", "graph-path:emitter_sorted")


def search(ctx, res, proof_broken):
    drv = Driver()
    pending = []
    for n in (1, 2, 3):
        for t in su.all_states(n):
            for _ in range(3):
                check_state(res, su.regauge_stab(su.regauge_clifford(t, ctx.rng).to_stabilizer(), ctx.rng), "search", pending)
        flush(res, drv, pending)
        if res.violations:
            break
    drv.close()


def replay(ctx, data):
    v = data.get("violation") or {}
    inp = v.get("input") or {}
    if "stab" not in inp:
        return None
    from harness.c11 import stab_of_args

    res = Result()
    drv = Driver()
    pending = []
    check_state(res, stab_of_args(inp["stab"]), "replay", pending)
    flush(res, drv, pending)
    rref_cases(res, drv, ctx.rng, [stab_of_args(inp["stab"])])
    drv.close()
    for x in res.violations:
        print(x["key"], x["clause"])
    return not res.violations
