"""
circutil.py — helpers around graphiq circuits for the C14 / C15 harnesses:
operation tuples <-> graphiq operation objects <-> line-protocol tokens, random circuit generation, per-register
views, and an *independent-of-the-comparison-code* oracle for "two circuits compile to the same state": the
distribution over final stabilizer states, enumerated over every outcome of every random measurement.

Operation tuples (hashable, the harness's own representation):
    ("one",  "Hadamard", ("e", 0))
    ("wrap", ("Hadamard", "Phase"), ("p", 1))          operations list as given to OneQubitGateWrapper
    ("ctrl", "CNOT", ("e", 0), ("p", 1))
    ("cctrl","ClassicalCNOT", ("e", 0), ("p", 1), 0)
    ("meas", ("e", 0), 1)
"""
import itertools

import numpy as np

from harness import common  # noqa: F401  (puts $REPO on sys.path)
from harness import tabutil as tu

G1 = ["Hadamard", "SigmaX", "SigmaY", "SigmaZ", "Phase", "PhaseDagger", "Identity"]
G2 = ["CNOT", "CZ"]
GC = ["ClassicalCNOT", "ClassicalCZ", "MeasurementCNOTandReset"]
ESC = set(" \n%,;|~+:\t\r")


# ------------------------------------------------------------------------------------------------ protocol encoding
def pct_enc(s):
    return "".join(("%%%02X" % ord(ch)) if (ch in ESC or ord(ch) < 32 or ord(ch) > 126) else ch for ch in s)


def pct_dec(s):
    out = []
    i = 0
    while i < len(s):
        if s[i] == "%" and i + 2 < len(s):
            out.append(chr(int(s[i + 1:i + 3], 16)))
            i += 3
        else:
            out.append(s[i])
            i += 1
    return "".join(out)


def enc_q(q):
    return f"{q[0]}{q[1]}"


def enc_op(t):
    k = t[0]
    if k == "one":
        return f"{t[1]}:{enc_q(t[2])}"
    if k == "wrap":
        return f"W({'.'.join(t[1])}):{enc_q(t[2])}"
    if k == "ctrl":
        return f"{t[1]}:{enc_q(t[2])}:{enc_q(t[3])}"
    if k == "cctrl":
        return f"{t[1]}:{enc_q(t[2])}:{enc_q(t[3])}:c{t[4]}"
    if k == "meas":
        return f"MeasurementZ:{enc_q(t[1])}:c{t[2]}"
    raise ValueError(t)


def enc_ops(ts):
    return ",".join(enc_op(t) for t in ts) if ts else "-"


def dec_q(s):
    return (s[0], int(s[1:]))


def dec_op(s):
    parts = s.split(":")
    h = parts[0]
    if h.startswith("W("):
        inner = h[2:-1]
        return ("wrap", tuple(inner.split(".")) if inner else tuple(), dec_q(parts[1]))
    if h in G1:
        return ("one", h, dec_q(parts[1]))
    if h in G2:
        return ("ctrl", h, dec_q(parts[1]), dec_q(parts[2]))
    if h in GC:
        return ("cctrl", h, dec_q(parts[1]), dec_q(parts[2]), int(parts[3][1:]))
    if h == "MeasurementZ":
        return ("meas", dec_q(parts[1]), int(parts[2][1:]))
    raise ValueError(s)


def dec_ops(s):
    return [] if s in ("-", "") else [dec_op(x) for x in s.split(",")]


# ------------------------------------------------------------------------------------------------ graphiq objects
def mk_op(t):
    import graphiq.circuit.ops as ops

    k = t[0]
    if k == "one":
        return getattr(ops, t[1])(register=t[2][1], reg_type=t[2][0])
    if k == "wrap":
        return ops.OneQubitGateWrapper([getattr(ops, n) for n in t[1]], register=t[2][1], reg_type=t[2][0])
    if k == "ctrl":
        return getattr(ops, t[1])(control=t[2][1], control_type=t[2][0], target=t[3][1], target_type=t[3][0])
    if k == "cctrl":
        return getattr(ops, t[1])(control=t[2][1], control_type=t[2][0], target=t[3][1], target_type=t[3][0], c_register=t[4])
    if k == "meas":
        return ops.MeasurementZ(register=t[1][1], reg_type=t[1][0], c_register=t[2])
    raise ValueError(t)


def op_tuple(op):
    """graphiq operation object -> tuple (None for input/output operations)"""
    import graphiq.circuit.ops as ops

    if isinstance(op, ops.InputOutputOperationBase):
        return None
    nm = type(op).__name__
    qs = list(zip(op.q_registers_type, op.q_registers))
    cs = list(op.c_registers)
    if nm == "OneQubitGateWrapper":
        return ("wrap", tuple(g.__name__ for g in op.operations), qs[0])
    if nm in G1:
        return ("one", nm, qs[0])
    if nm in G2:
        return ("ctrl", nm, qs[0], qs[1])
    if nm in GC:
        return ("cctrl", nm, qs[0], qs[1], cs[0])
    if nm == "MeasurementZ":
        return ("meas", qs[0], cs[0])
    return ("other", nm, tuple(qs), tuple(cs))


def build(ne, np_, nc, tuples):
    from graphiq.circuit.circuit_dag import CircuitDAG

    c = CircuitDAG(n_emitter=ne, n_photon=np_, n_classical=nc)
    for t in tuples:
        c.add(mk_op(t))
    return c


def _placeholder(t):
    """an operation on the same registers as `t` but of another kind (used to reach `t` through `replace_op`); None if there is none"""
    k = t[0]
    if k == "one":
        return ("one", "Identity" if t[1] != "Identity" else "Hadamard", t[2])
    if k == "wrap":
        return ("one", "Identity", t[2])
    if k == "ctrl":
        return ("ctrl", "CZ" if t[1] == "CNOT" else "CNOT", t[2], t[3])
    if k == "cctrl":
        others = [g for g in ("ClassicalCNOT", "ClassicalCZ") if g != t[1]]
        return ("cctrl", others[0], t[2], t[3], t[4])
    return None


def build_history(ne, np_, nc, tuples, mode="replace", pick=None):
    """the same final circuit as `build`, reached through another edit history: every operation selected by `pick(k, t)` (default: all)
    enters the circuit by `replace_op` of a placeholder of another kind (mode 'replace') or by `insert_at` on the output edges of its
    quantum registers (mode 'insert'; only operations without classical register, whose wire `insert_at` does not thread)."""
    from graphiq.circuit.circuit_dag import CircuitDAG

    if mode == "insert-mid":
        return _build_insert_mid(ne, np_, nc, tuples, pick)
    c = CircuitDAG(n_emitter=ne, n_photon=np_, n_classical=nc)
    for k, t in enumerate(tuples):
        sel = pick(k, t) if pick else True
        ph = _placeholder(t) if (sel and mode == "replace") else None
        if ph is not None:
            c.add(mk_op(ph))
            node = max(n for n in c.dag.nodes if isinstance(n, int))
            c.replace_op(node, mk_op(t))
        elif sel and mode == "insert" and t[0] in ("one", "wrap", "ctrl"):
            op = mk_op(t)
            edges = []
            for rt, r in zip(op.q_registers_type, op.q_registers):
                out = f"{rt}{r}_out"
                (u, v, key), = [(u, v, key) for u, v, key in c.dag.in_edges(out, keys=True)]
                edges.append((u, v, key))
            c.insert_at(op, edges)
        else:
            c.add(mk_op(t))
    return c


def _quantum_regs(t):
    return [x for x in t[1:] if isinstance(x, tuple) and len(x) == 2 and x[0] in ("e", "p")]


def _build_insert_mid(ne, np_, nc, tuples, pick=None):
    """the same final circuit, but the operations selected by `pick` (default: every third one without classical register) are left out at
    first and put in afterwards by `insert_at` on the edge of each of their quantum wires where they belong — *in the middle* of the wire, so
    the node creation order is no longer a topological order.  Operations with a classical register are always added in place (`insert_at`
    does not thread the classical wire)."""
    from graphiq.circuit.circuit_dag import CircuitDAG

    late = [k for k, t in enumerate(tuples) if t[0] in ("one", "wrap", "ctrl") and (pick(k, t) if pick else k % 3 == 1)]
    c = CircuitDAG(n_emitter=ne, n_photon=np_, n_classical=nc)
    for k, t in enumerate(tuples):
        if k not in late:
            c.add(mk_op(t))
    present = [k for k in range(len(tuples)) if k not in late]
    for k in late:
        t = tuples[k]
        op = mk_op(t)
        edges = []
        for (rt, r) in _quantum_regs(t):
            # operations already in the circuit that precede position k on this wire
            before = sum(1 for j in present if j < k and (rt, r) in _quantum_regs(tuples[j]))
            node = f"{rt}{r}_in"
            edge = None
            for _ in range(before + 1):
                (edge,) = [(u, v, key) for u, v, key in c.dag.out_edges(node, keys=True) if key == f"{rt}{r}"]
                node = edge[1]
            edges.append(edge)
        c.insert_at(op, edges)
        present.append(k)
    return c


def regs_of(circ):
    return (circ.n_emitters, circ.n_photons, circ.n_classical)


def add_order(circ):
    """operation tuples in the order the nodes were created (integer node ids)"""
    ids = sorted(n for n in circ.dag.nodes if isinstance(n, int))
    return [op_tuple(circ.dag.nodes[n]["op"]) for n in ids], ids


def seq_order(circ):
    """(tuples in `sequence()` order, positions of those operations in the add order); also checks the library
    specification assumed for networkx.topological_sort: the order is a linear extension of the wire order"""
    ids = sorted(n for n in circ.dag.nodes if isinstance(n, int))
    pos = {id(circ.dag.nodes[n]["op"]): k for k, n in enumerate(ids)}
    seq = [op for op in circ.sequence() if op_tuple(op) is not None]
    idx = [pos[id(op)] for op in seq]
    return [op_tuple(op) for op in seq], idx


def op_regs(t):
    """all registers an operation tuple touches: quantum ('e'|'p', i) then classical ('c', i)"""
    k = t[0]
    if k in ("one", "wrap"):
        return [t[2]]
    if k == "ctrl":
        return [t[2], t[3]]
    if k == "cctrl":
        return [t[2], t[3], ("c", t[4])]
    if k == "meas":
        return [t[1], ("c", t[2])]
    return []


def flat(tuples):
    """unwrap wrappers (last listed acts first) and drop identities: what the compilers execute"""
    out = []
    for t in tuples:
        if t[0] == "wrap":
            for g in reversed(t[1]):
                if g != "Identity":
                    out.append(("one", g, t[2]))
        elif t[0] == "one" and t[1] == "Identity":
            continue
        else:
            out.append(t)
    return out


def wires(tuples, quantum_only=False):
    """register -> sequence of (flattened) operation tuples on it"""
    w = {}
    for t in flat(tuples):
        for r in op_regs(t):
            if quantum_only and r[0] == "c":
                continue
            w.setdefault(r, []).append(t)
    return w


def is_linear_extension(add_tuples, idx):
    """the `sequence()` order (positions idx into the add order) keeps, on every register, the add order"""
    last = {}
    for p in idx:
        for r in op_regs(add_tuples[p]):
            if last.get(r, -1) > p:
                return False
            last[r] = p
    return sorted(idx) == list(range(len(add_tuples)))


# ------------------------------------------------------------------------------------------------ random circuits
def random_q(rng, ne, np_):
    k = rng.randrange(ne + np_)
    return ("e", k) if k < ne else ("p", k - ne)


def random_op(rng, ne, np_, nc, w=None):
    w = w or {"one": 0.34, "wrap": 0.16, "ctrl": 0.25, "cctrl": 0.13, "meas": 0.12}
    kinds = list(w)
    k = rng.choices(kinds, [w[x] for x in kinds])[0]
    nq = ne + np_
    if k in ("ctrl", "cctrl") and nq < 2:
        k = "one"
    if k in ("cctrl", "meas") and nc < 1:
        k = "one"
    if k == "one":
        return ("one", rng.choice(G1), random_q(rng, ne, np_))
    if k == "wrap":
        n = rng.choice([1, 1, 2, 2, 3, 4, 5])
        return ("wrap", tuple(rng.choice(G1) for _ in range(n)), random_q(rng, ne, np_))
    a = random_q(rng, ne, np_)
    if k == "meas":
        return ("meas", a, rng.randrange(nc))
    b = random_q(rng, ne, np_)
    while b == a:
        b = random_q(rng, ne, np_)
    if k == "ctrl":
        return ("ctrl", rng.choice(G2), a, b)
    return ("cctrl", rng.choice(GC), a, b, rng.randrange(nc))


def random_circuit(rng, ne, np_, nc, nops, w=None):
    return [random_op(rng, ne, np_, nc, w) for _ in range(nops)]


# ------------------------------------------------------------------------------------------------ state oracle
class _Scripted:
    def __init__(self, bits):
        self.bits = list(bits)
        self.used = 0

    def __call__(self, *a, **k):
        b = self.bits[self.used] if self.used < len(self.bits) else 0
        self.used += 1
        return b


def _compile_once(circ, bits):
    from graphiq.backends.stabilizer.compiler import StabilizerCompiler

    comp = StabilizerCompiler()
    comp.measurement_determinism = "probabilistic"
    sc = _Scripted(bits)
    saved = np.random.randint
    np.random.randint = sc
    try:
        st = comp.compile(circ)
    finally:
        np.random.randint = saved
    return st.rep_data.data, sc.used


def state_distribution(circ, max_branches=256):
    """{canonical signed stabilizer group: probability} over all outcomes of all random measurements of the circuit
    (each random stabilizer measurement is a fair coin).  Returns None if there are more than `max_branches` branches."""
    dist = {}
    stack = [()]
    n_br = 0
    while stack:
        bits = stack.pop()
        tab, used = _compile_once(circ, bits)
        if used > len(bits):
            # the run drew more coins than scripted: the first unscripted draw was taken as 0; branch on it
            stack.append(bits + (0,))
            stack.append(bits + (1,))
            continue
        if used != len(bits):
            # every scripted coin was pushed because a run with the same prefix drew it: a run that now consumes fewer coins than scripted
            # means the compilation is not a function of the drawn outcomes, and the enumerated "distribution" would be meaningless
            raise AssertionError(f"state oracle: {len(bits)} measurement outcomes scripted but {used} drawn (compilation not deterministic in its coins)")
        n_br += 1
        if n_br > max_branches:
            return None
        key = (tab.n_qubits, tu.stab_canon(tab))
        dist[key] = dist.get(key, 0.0) + 2.0 ** (-len(bits))
    return dist


def tableau_of(circ, bits=()):
    return _compile_once(circ, bits)[0]


def dist_key_perm(key, perm):
    """apply a qubit permutation to a canonical key (n, rows): column k -> perm[k], re-canonicalise"""
    n, rows = key
    if rows is None:
        return key
    x = np.zeros((len(rows), n), dtype=int)
    z = np.zeros((len(rows), n), dtype=int)
    r = np.zeros(len(rows), dtype=int)
    for i, (xr, zr, s) in enumerate(rows):
        for k in range(n):
            x[i, perm[k]] = xr[k]
            z[i, perm[k]] = zr[k]
        r[i] = s
    return (n, tu.span_canon(x, z, r))


def dists_equal(d1, d2, perm=None):
    if d1 is None or d2 is None:
        return None
    if perm is not None:
        d1p = {}
        for k, p in d1.items():
            kk = dist_key_perm(k, perm)
            d1p[kk] = d1p.get(kk, 0.0) + p
        d1 = d1p
    if set(d1) != set(d2):
        return False
    return all(abs(d1[k] - d2[k]) < 1e-9 for k in d1)


def type_preserving_perms(ne, np_):
    """qubit permutations (index = compiled tableau column: photons first, then emitters) that permute photons among
    photons and emitters among emitters"""
    for pp in itertools.permutations(range(np_)):
        for pe in itertools.permutations(range(ne)):
            yield list(pp) + [np_ + k for k in pe]


def equivalent_up_to_renaming(c1, c2, max_branches=256):
    """-> (True, perm) if some type-preserving renaming of c1's quantum registers makes the state distributions equal,
    (False, None) if none does, (None, None) if undecided (too many branches / different register counts are False)"""
    if regs_of(c1)[:2] != regs_of(c2)[:2]:
        return False, None
    d1 = state_distribution(c1, max_branches)
    d2 = state_distribution(c2, max_branches)
    if d1 is None or d2 is None:
        return None, None
    ne, np_, _ = regs_of(c1)
    for perm in type_preserving_perms(ne, np_):
        if dists_equal(d1, d2, perm):
            return True, perm
    return False, None


def same_state(c1, c2, max_branches=256):
    if regs_of(c1)[:2] != regs_of(c2)[:2]:
        return False
    return dists_equal(state_distribution(c1, max_branches), state_distribution(c2, max_branches))


# ------------------------------------------------------------------------------------------------ shrinking
def shrink_list(items, fails, budget=150):
    """greedy delta-debugging on a list: drop chunks, then single elements, while `fails(candidate)` stays true"""
    items = list(items)
    n_calls = 0
    chunk = max(1, len(items) // 2)
    while chunk >= 1 and n_calls < budget:
        i = 0
        progressed = False
        while i < len(items) and n_calls < budget:
            cand = items[:i] + items[i + chunk:]
            n_calls += 1
            if len(cand) < len(items) and fails(cand):
                items = cand
                progressed = True
            else:
                i += chunk
        if chunk == 1 and not progressed:
            break
        chunk = chunk // 2 if chunk > 1 else (1 if progressed else 0)
    return items


def simplify_ops(ops, fails, budget=60):
    """shorten wrappers element by element while the failure persists"""
    ops = list(ops)
    n = 0
    for i, t in enumerate(list(ops)):
        if t[0] == "wrap" and len(t[1]) > 1:
            gs = list(t[1])
            j = 0
            while j < len(gs) and len(gs) > 1 and n < budget:
                cand_gs = gs[:j] + gs[j + 1:]
                cand = ops[:i] + [("wrap", tuple(cand_gs), t[2])] + ops[i + 1:]
                n += 1
                if fails(cand):
                    gs = cand_gs
                    ops = cand
                else:
                    j += 1
    return ops
