"""
gen_tables_export.py — tabulate, from $REPO's current source, the finite name tables behind the exporters/importers
(C14) and the class relations used by circuit comparison (C15), and write them as Lean literals to
lean/GraphiqModel/Generated/NameTables.lean (DESIGN §2.4).

What is tabulated (over the whole domain unless said otherwise):
  * class_to_name_mapping(k)                     for the 13 exportable operation classes
  * name_to_class_map(s)                         for every candidate string s: all string constants of the function's code
                                                 object, every openQASM gate name, every JSON name, and every string of
                                                 length <= 3 over the characters occurring in any of them (entries that map
                                                 to a class are listed; everything else maps to None)
  * k.openqasm_info(): gate_name, multi_comp, definitions, import strings          for the 13 classes
  * issubclass(k, OneQubitOperationBase), the from_json constructor dispatch of k, issubclass(k1, k2) for all pairs
  * openqasm_header(), the empty_info gate name
The property files re-prove by kernel `decide` that the literals have the round-trip properties; the model *executes*
with these literals, so a changed entry shows up as a failed theorem (and as a failing input of the direct oracle), not
as a silent model/implementation disagreement.
"""
import itertools
import json
import os
import sys

sys.path.insert(0, os.path.dirname(os.path.dirname(os.path.abspath(__file__))))
from harness import common  # noqa: E402

CLASSES = ["CNOT", "SigmaX", "SigmaY", "SigmaZ", "Hadamard", "Phase", "CZ", "ClassicalCNOT", "ClassicalCZ",
           "MeasurementCNOTandReset", "Identity", "PhaseDagger", "MeasurementZ"]


def lean_str(s):
    out = ['"']
    for ch in s:
        if ch == "\\":
            out.append("\\\\")
        elif ch == '"':
            out.append('\\"')
        elif ch == "\n":
            out.append("\\n")
        elif ch == "\t":
            out.append("\\t")
        elif ch == "\r":
            out.append("\\r")
        elif 32 <= ord(ch) < 127:
            out.append(ch)
        else:
            out.append("\\u{%x}" % ord(ch))
    out.append('"')
    return "".join(out)


def _strings_of(consts):
    for c in consts:
        if isinstance(c, str):
            yield c
        elif isinstance(c, (tuple, frozenset)):
            yield from _strings_of(c)


def tabulate():
    """-> dict of tables (plain Python data, JSON-serialisable)"""
    import graphiq.circuit.ops as ops
    import graphiq.utils.openqasm_lib as oq

    t = {}
    classes = {}
    for nm in CLASSES:
        classes[nm] = getattr(ops, nm, None)
    t["classes_present"] = [nm for nm in CLASSES if classes[nm] is not None]

    # ---- class_to_name_mapping
    c2n = {}
    for nm, k in classes.items():
        v = ops.class_to_name_mapping(k) if k is not None else None
        c2n[nm] = v if isinstance(v, str) else None
    t["class_to_name"] = c2n

    # ---- openqasm info
    gate_name, multi, defs, imps = {}, {}, {}, {}
    for nm, k in classes.items():
        try:
            info = k.openqasm_info()
            gate_name[nm] = info.gate_name
            multi[nm] = bool(info.multi_comp)
            defs[nm] = list(info.define_gate)
            imps[nm] = list(info.import_strings)
        except Exception:  # noqa: BLE001
            gate_name[nm], multi[nm], defs[nm], imps[nm] = None, False, [], []
    t["gate_name"] = gate_name
    t["multi_comp"] = multi
    t["definitions"] = defs
    t["imports"] = imps
    t["header"] = oq.openqasm_header()
    e = oq.empty_info()
    t["empty_gate_name"] = e.gate_name
    t["empty_definitions"] = list(e.define_gate)

    # ---- name_to_class_map over the candidate domain
    cands = set(_strings_of(ops.name_to_class_map.__code__.co_consts))
    cands = {c for c in cands if len(c) <= 40}
    cands |= {v for v in c2n.values() if v}
    cands |= {v for v in gate_name.values() if v is not None}
    cands |= {"classical x", "classical z", "classical y", "classical h", "classical s", "classical reset x", "classical reset z",
              "classical reset y", "one qubit gate wrapper", "id", "measure z", "CX", "cx", "CZ", "cz", "sdg", "p", "u", "rx", "ry",
              "rz", "cu3", "ccnot", "ccz", "ccnot_and_reset", "", "reset", "if", "measure", "barrier"}
    alphabet = sorted({ch for c in cands for ch in c if ch != "\n"} | set("abcdefghijklmnopqrstuvwxyzCXZ"))
    short = {"".join(p) for k in (1, 2) for p in itertools.product(alphabet, repeat=k)}
    short |= {"".join(p) for p in itertools.product(sorted(set("cdghipsxyzCXZ")), repeat=3)}
    rev = {k: nm for nm, k in classes.items() if k is not None}
    n2c = {}
    unknown_class = []
    for s in sorted(cands | short):
        k = ops.name_to_class_map(s)
        if k is None:
            continue
        if k in rev:
            n2c[s] = rev[k]
        else:
            unknown_class.append((s, getattr(k, "__name__", str(k))))
            n2c[s] = getattr(k, "__name__", str(k))
    t["name_to_class"] = n2c
    t["name_to_class_candidates"] = len(cands | short)

    # ---- class relations
    one_q = {}
    shape = {}
    for nm, k in classes.items():
        if k is None:
            one_q[nm], shape[nm] = False, "none"
            continue
        one_q[nm] = issubclass(k, ops.OneQubitOperationBase)
        # the constructor dispatch of CircuitDAG.from_json
        if issubclass(k, ops.ClassicalControlledPairOperationBase):
            shape[nm] = "cctrl"
        elif issubclass(k, ops.ControlledPairOperationBase):
            shape[nm] = "ctrl"
        elif issubclass(k, ops.MeasurementZ):
            shape[nm] = "meas"
        else:
            shape[nm] = "one"
    t["one_qubit"] = one_q
    t["json_shape"] = shape
    t["subclass"] = sorted([a, b] for a in CLASSES for b in CLASSES
                           if classes[a] is not None and classes[b] is not None and issubclass(classes[a], classes[b]))
    t["controlled_pair"] = {nm: bool(k is not None and issubclass(k, ops.ControlledPairOperationBase)) for nm, k in classes.items()}
    return t


def to_lean(t):
    L = []
    L.append("/-  GENERATED by harness/gen_tables_export.py from $REPO on every run — do not edit.  -/")
    L.append("namespace Graphiq.Gen")
    L.append("")

    def opt(v):
        return "none" if v is None else f"some {lean_str(v)}"

    def assoc(name, typ, rows):
        L.append(f"def {name} : List ({typ}) :=")
        if not rows:
            L.append("  []")
        else:
            L.append("  [" + ",\n   ".join(rows) + "]")
        L.append("")

    assoc("classToName", "String × Option String", [f"({lean_str(k)}, {opt(v)})" for k, v in t["class_to_name"].items()])
    assoc("nameToClass", "String × String", [f"({lean_str(k)}, {lean_str(v)})" for k, v in sorted(t["name_to_class"].items())])
    assoc("gateName", "String × Option String", [f"({lean_str(k)}, {opt(v)})" for k, v in t["gate_name"].items()])
    assoc("multiComp", "String × Bool", [f"({lean_str(k)}, {'true' if v else 'false'})" for k, v in t["multi_comp"].items()])
    assoc("definitions", "String × List String",
          [f"({lean_str(k)}, [{', '.join(lean_str(d) for d in v)}])" for k, v in t["definitions"].items()])
    assoc("imports", "String × List String",
          [f"({lean_str(k)}, [{', '.join(lean_str(d) for d in v)}])" for k, v in t["imports"].items()])
    assoc("oneQubit", "String × Bool", [f"({lean_str(k)}, {'true' if v else 'false'})" for k, v in t["one_qubit"].items()])
    assoc("jsonShape", "String × String", [f"({lean_str(k)}, {lean_str(v)})" for k, v in t["json_shape"].items()])
    assoc("controlledPair", "String × Bool", [f"({lean_str(k)}, {'true' if v else 'false'})" for k, v in t["controlled_pair"].items()])
    assoc("subclass", "String × String", [f"({lean_str(a)}, {lean_str(b)})" for a, b in t["subclass"]])
    L.append(f"def header : String := {lean_str(t['header'])}")
    L.append(f"def emptyGateName : String := {lean_str(t['empty_gate_name'])}")
    L.append(f"def emptyDefinitions : List String := [{', '.join(lean_str(d) for d in t['empty_definitions'])}]")
    L.append("")
    L.append("end Graphiq.Gen")
    return "\n".join(L) + "\n"


EXPECTED = os.path.join(common.LEAN_DIR, "expected_tables", "export.json")


def diff_expected(t=None):
    """-> list of human-readable differences between the current tables and the committed expected tables"""
    t = t or tabulate()
    if not os.path.exists(EXPECTED):
        return []
    exp = json.load(open(EXPECTED))
    out = []
    for key in sorted(set(exp) | set(t)):
        a, b = exp.get(key), json.loads(json.dumps(t.get(key)))
        if a == b:
            continue
        if isinstance(a, dict) and isinstance(b, dict):
            for k in sorted(set(a) | set(b)):
                if a.get(k) != b.get(k):
                    out.append(f"{key}[{k!r}]: expected {a.get(k)!r}, now {b.get(k)!r}")
        else:
            out.append(f"{key}: expected {a!r}, now {b!r}")
    return out


def generate():
    from harness.gen_tables import write_if_changed

    t = tabulate()
    write_if_changed("NameTables.lean", to_lean(t))
    return t


if __name__ == "__main__":
    tt = tabulate()
    if "--write-expected" in sys.argv:
        os.makedirs(os.path.dirname(EXPECTED), exist_ok=True)
        with open(EXPECTED, "w") as f:
            json.dump(tt, f, indent=1, sort_keys=True)
    print(to_lean(tt))
