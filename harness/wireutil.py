"""
wireutil.py — wire-level view of a graphiq CircuitDAG, shared by the C04 and C13 harnesses.

snapshot(circuit)  reads the networkx MultiDiGraph only (node payloads and edge keys): for every register it walks the
                   path <reg>_in -> … -> <reg>_out along the edges whose key is that register.
encode / decode    the line-protocol form understood by lean/Driver/CmdWire.lean.
structure_problems independent consistency checks of the DAG and of its indexes (edge_dict / node_dict).
emit_problems      the direct C04 oracle (EmitInv evaluated on the implementation's DAG, not on the snapshot).
build(snap)        re-creates a CircuitDAG from a snapshot through the public API (used by replays / shrinking).
"""
import networkx as nx

from harness import common  # noqa: F401  (puts $REPO on sys.path)

KIND_OF = {
    "OneQubitGateWrapper": "W",
    "MeasurementZ": "MZ",
    "CNOT": "CNOT",
    "CZ": "CZ",
    "ClassicalCNOT": "CCNOT",
    "ClassicalCZ": "CCZ",
    "MeasurementCNOTandReset": "MCR",
}
G1_OF = {"Identity": "I", "Hadamard": "H", "Phase": "P", "PhaseDagger": "Pdg", "SigmaX": "X", "SigmaY": "Y", "SigmaZ": "Z"}
G1_BACK = {v: k for k, v in G1_OF.items()}
KIND_BACK = {v: k for k, v in KIND_OF.items()}
CLASS_LABEL = {"W": "one-qubit", "G": "one-qubit", "MZ": "one-qubit", "CNOT": "two-qubit", "CZ": "two-qubit",
               "CCNOT": "two-qubit", "CCZ": "two-qubit", "MCR": "two-qubit"}


class OutOfModel(Exception):
    """the circuit contains something the wire model does not represent (parameterised gates, foreign labels, …)"""


def op_tuple(op):
    """operation object -> (kind, gates, q, c, fixed)"""
    name = type(op).__name__
    if name in G1_OF:
        kind, gates = "G", (G1_OF[name],)
    elif name == "OneQubitGateWrapper":
        try:
            gates = tuple(G1_OF[g.__name__] for g in op.operations)
        except KeyError as e:
            raise OutOfModel(f"wrapper holds {e}")
        kind = "W"
    elif name in KIND_OF:
        kind, gates = KIND_OF[name], ()
    else:
        raise OutOfModel(f"operation class {name}")
    q = tuple(f"{t}{r}" for r, t in zip(op.q_registers, op.q_registers_type))
    for r in op.q_registers + op.c_registers:
        if not isinstance(r, int):
            raise OutOfModel("tuple register")
    c = tuple(int(x) for x in op.c_registers)
    labels = list(op.labels)
    want = [CLASS_LABEL[kind]]
    rest = [lb for lb in labels if lb != "Fixed"]
    if rest != want:
        raise OutOfModel(f"labels {labels} on {name}")
    nfixed = labels.count("Fixed")
    if nfixed > 1:
        raise OutOfModel(f"labels {labels} on {name}")
    return (kind, gates, q, c, nfixed == 1)


def reg_names(circuit):
    return ([f"e{i}" for i in range(circuit.n_emitters)] + [f"p{i}" for i in range(circuit.n_photons)]
            + [f"c{i}" for i in range(circuit.n_classical)])


def walk(dag, reg):
    """op-node ids on register `reg`, in order; raises ValueError when the edges with key `reg` do not form one path"""
    cur = f"{reg}_in"
    out = []
    seen = {cur}
    while cur != f"{reg}_out":
        nxt = [v for (_, v, k) in dag.out_edges(cur, keys=True) if k == reg]
        if len(nxt) != 1:
            raise ValueError(f"register {reg}: node {cur} has {len(nxt)} outgoing edges with that key")
        cur = nxt[0]
        if cur in seen:
            raise ValueError(f"register {reg}: walk revisits {cur}")
        seen.add(cur)
        if cur != f"{reg}_out":
            out.append(cur)
    return out


def snapshot(circuit):
    dag = circuit.dag
    snap = {"ne": circuit.n_emitters, "np": circuit.n_photons, "nc": circuit.n_classical, "nid": int(circuit._node_id),
            "nodes": {}, "wires": {}}
    for n in dag.nodes:
        if isinstance(n, str):
            continue
        snap["nodes"][int(n)] = op_tuple(dag.nodes[n]["op"])
    for reg in reg_names(circuit):
        w = walk(dag, reg)
        for n in w:
            if isinstance(n, str):
                raise ValueError(f"register {reg} passes through {n}")
        snap["wires"][reg] = tuple(int(n) for n in w)
    return snap


def freeze(snap):
    """hashable canonical form"""
    return (snap["ne"], snap["np"], snap["nc"], snap["nid"], tuple(sorted(snap["nodes"].items())),
            tuple(sorted(snap["wires"].items())))


def shape(snap):
    """canonical form up to node ids (ids renamed by first appearance over the wires in register order)"""
    ren = {}
    order = [f"e{i}" for i in range(snap["ne"])] + [f"p{i}" for i in range(snap["np"])] + [f"c{i}" for i in range(snap["nc"])]
    for reg in order:
        for n in snap["wires"][reg]:
            ren.setdefault(n, len(ren))
    for n in sorted(snap["nodes"]):
        ren.setdefault(n, len(ren))
    return (snap["ne"], snap["np"], snap["nc"], tuple(sorted((ren[n], v) for n, v in snap["nodes"].items())),
            tuple((reg, tuple(ren[n] for n in snap["wires"][reg])) for reg in order))


def dots(xs):
    xs = list(xs)
    return ".".join(str(x) for x in xs) if xs else "-"


def enc_op(t):
    kind, gates, q, c, fixed = t
    return f"{kind}:{dots(gates)}:{dots(q)}:{dots(c)}:{1 if fixed else 0}"


def encode(snap):
    nodes = ";".join(f"{n}:{enc_op(snap['nodes'][n])}" for n in sorted(snap["nodes"])) or "-"
    order = [f"e{i}" for i in range(snap["ne"])] + [f"p{i}" for i in range(snap["np"])] + [f"c{i}" for i in range(snap["nc"])]
    wires = ";".join(f"{r}:{dots(snap['wires'][r])}" for r in order) or "-"
    return f"ne={snap['ne']} np={snap['np']} nc={snap['nc']} nid={snap['nid']} nodes={nodes} wires={wires}"


def undots(s):
    return [] if s in ("", "-") else s.split(".")


def decode(rep):
    """parsed driver reply (dict) -> snapshot"""
    snap = {"ne": int(rep["ne"]), "np": int(rep["np"]), "nc": int(rep["nc"]), "nid": int(rep["nid"]), "nodes": {}, "wires": {}}
    if rep["nodes"] not in ("", "-"):
        for tok in rep["nodes"].split(";"):
            n, kind, gates, q, c, fixed = tok.split(":")
            snap["nodes"][int(n)] = (kind, tuple(undots(gates)), tuple(undots(q)), tuple(int(x) for x in undots(c)), fixed == "1")
    if rep["wires"] not in ("", "-"):
        for tok in rep["wires"].split(";"):
            r, ids = tok.split(":")
            snap["wires"][r] = tuple(int(x) for x in undots(ids))
    return snap


def edge_token(snap, edge):
    """DAG edge (u, v, key) -> '<reg>@<pos>' in the snapshot"""
    u, v, key = edge
    w = snap["wires"][key]
    if isinstance(u, str):
        pos = 0
    else:
        pos = w.index(u) + 1
    exp_v = w[pos] if pos < len(w) else f"{key}_out"
    if exp_v != v or (isinstance(u, str) and u != f"{key}_in"):
        raise ValueError(f"edge {edge} is not an edge of wire {key}={w}")
    return f"{key}@{pos}"


# --------------------------------------------------------------------------------------------------------------------
# independent structural checks (the "valid circuit" part of the oracle)
# --------------------------------------------------------------------------------------------------------------------
def structure_problems(circuit):
    """-> list of strings; empty when the DAG, its wires and its indexes are consistent"""
    probs = []
    dag = circuit.dag
    try:
        circuit.validate()
    except BaseException as e:  # noqa: BLE001
        probs.append(f"validate() raised {type(e).__name__}")
    if not nx.is_directed_acyclic_graph(dag):
        probs.append("cycle")
        return probs
    try:
        snap = snapshot(circuit)
    except OutOfModel:
        raise
    except Exception as e:  # noqa: BLE001
        probs.append(f"wires: {e}")
        return probs
    n_edges = sum(len(w) + 1 for w in snap["wires"].values())
    if dag.number_of_edges() != n_edges:
        probs.append(f"{dag.number_of_edges()} edges but the register paths use {n_edges}")
    for n, (kind, gates, q, c, fixed) in snap["nodes"].items():
        on = [r for r, w in snap["wires"].items() if n in w]
        if sorted(r for r in on if r[0] != "c") != sorted(q):
            probs.append(f"node {n} acts on {q} but lies on {on}")
        if any(w.count(n) > 1 for w in snap["wires"].values()):
            probs.append(f"node {n} occurs twice on a wire")
        if not set(r for r in on if r[0] == "c") <= {f"c{i}" for i in c}:
            probs.append(f"node {n} lies on classical wires {on} outside {c}")
        if dag.in_degree(n) != len(on) or dag.out_degree(n) != len(on):
            probs.append(f"node {n}: degree {dag.in_degree(n)}/{dag.out_degree(n)} but on {len(on)} wires")
        if len(q) == 2 and q[0] == q[1]:
            probs.append(f"node {n}: control = target {q}")
        for r in q:
            if int(r[1:]) >= {"e": snap["ne"], "p": snap["np"]}[r[0]]:
                probs.append(f"node {n}: register {r} does not exist")
    for w in snap["wires"].values():
        for n in w:
            if n not in snap["nodes"] or n > snap["nid"]:
                probs.append(f"wire node {n} unknown / above _node_id")
    # indexes the moves read
    for t in ("e", "p", "c"):
        want = [(u, v, k) for (u, v, k, d) in dag.edges(keys=True, data=True) if d.get("reg_type") == t]
        got = list(circuit.edge_dict.get(t, []))
        if sorted(map(str, want)) != sorted(map(str, got)):
            probs.append(f"edge_dict[{t}] differs from the DAG's edges")
    for label, members in circuit.node_dict.items():
        if len(set(members)) != len(members):
            probs.append(f"node_dict[{label}] has duplicates")
        for n in members:
            if n not in dag.nodes:
                probs.append(f"node_dict[{label}] lists missing node {n}")
    for n in dag.nodes:
        op = dag.nodes[n]["op"]
        keys = list(op.labels) + [type(op).__name__]
        if not isinstance(n, str):
            keys.append(op.parse_q_reg_types())
        else:
            keys = [type(op).__name__]
        for k in keys:
            if n not in circuit.node_dict.get(k, []):
                probs.append(f"node {n} missing from node_dict[{k}]")
    return probs


def emit_problems(circuit):
    """EmitInv evaluated on the implementation's DAG (op objects and edge keys), independent of snapshot()/the model"""
    import graphiq.circuit.ops as ops

    probs = []
    dag = circuit.dag
    for n in dag.nodes:
        op = dag.nodes[n]["op"]
        if isinstance(op, (ops.Input, ops.Output)):
            continue
        if len(op.q_registers) == 2 and tuple(op.q_registers_type) == ("p", "p"):
            probs.append(f"two-qubit {type(op).__name__} node {n} between photons {op.q_registers}")
    for i in range(circuit.n_photons):
        key = f"p{i}"
        cur = f"{key}_in"
        k = 0
        guard = 0
        while cur != f"{key}_out" and guard <= dag.number_of_nodes():
            guard += 1
            nxt = [v for (_, v, kk) in dag.out_edges(cur, keys=True) if kk == key]
            if len(nxt) != 1:
                probs.append(f"photon {i}: broken wire at {cur}")
                break
            cur = nxt[0]
            if cur == f"{key}_out":
                break
            op = dag.nodes[cur]["op"]
            if k == 0:
                ok = (type(op) is ops.CNOT and "Fixed" in op.labels and op.control_type == "e" and op.target_type == "p"
                      and op.target == i)
                if not ok:
                    probs.append(f"photon {i}: first operation is {type(op).__name__}{op.q_registers}{op.q_registers_type} labels={op.labels}")
            else:
                one = (isinstance(op, ops.OneQubitOperationBase) and tuple(op.q_registers) == (i,)
                       and tuple(op.q_registers_type) == ("p",))
                corr = (isinstance(op, ops.ClassicalControlledPairOperationBase) and op.target == i and op.target_type == "p"
                        and op.control_type == "e")
                if not (one or corr):
                    probs.append(f"photon {i}: later operation {type(op).__name__}{op.q_registers}{op.q_registers_type}")
            k += 1
        if k == 0:
            probs.append(f"photon {i}: no emission")
    return probs


def fixed_anchor(circuit, initial=False):
    """{node id: (class name, q_registers, q_types)} of the operations a mutation must never remove.
    initial=True (the circuit is an initial solver circuit, nothing has been mutated yet): every emission CNOT
    (emitter -> photon) and every measure-and-reset, whatever its labels — they were all placed at initialisation.
    initial=False (mid-history circuit): only those carrying the Fixed label (unlabelled measure-and-resets may have been
    added by a move and are legitimately removable)."""
    out = {}
    for n in circuit.dag.nodes:
        op = circuit.dag.nodes[n]["op"]
        name = type(op).__name__
        if name == "MeasurementCNOTandReset" or (name == "CNOT" and tuple(op.q_registers_type) == ("e", "p")):
            if initial or "Fixed" in op.labels:
                out[n] = (name, tuple(op.q_registers), tuple(op.q_registers_type))
    return out


# --------------------------------------------------------------------------------------------------------------------
# rebuilding a circuit from a snapshot
# --------------------------------------------------------------------------------------------------------------------
def make_op(t):
    import graphiq.circuit.ops as ops

    kind, gates, q, c, fixed = t
    regs = [(r[0], int(r[1:])) for r in q]
    if kind == "W":
        op = ops.OneQubitGateWrapper([getattr(ops, G1_BACK[g]) for g in gates], register=regs[0][1], reg_type=regs[0][0])
    elif kind == "G":
        op = getattr(ops, G1_BACK[gates[0]])(register=regs[0][1], reg_type=regs[0][0])
    elif kind == "MZ":
        op = ops.MeasurementZ(register=regs[0][1], reg_type=regs[0][0], c_register=c[0])
    elif kind in ("CNOT", "CZ"):
        op = getattr(ops, KIND_BACK[kind])(control=regs[0][1], control_type=regs[0][0], target=regs[1][1], target_type=regs[1][0])
    else:
        op = getattr(ops, KIND_BACK[kind])(control=regs[0][1], control_type=regs[0][0], target=regs[1][1],
                                           target_type=regs[1][0], c_register=c[0])
    if fixed:
        op.add_labels("Fixed")
    return op


def linear_extension(snap):
    """a linear extension of the wire orders (Kahn), smallest id first"""
    pos = {r: 0 for r in snap["wires"]}
    on = {n: [r for r, w in snap["wires"].items() if n in w] for n in snap["nodes"]}
    out = []
    left = set(snap["nodes"])
    while left:
        ready = sorted(n for n in left if all(snap["wires"][r][pos[r]] == n for r in on[n]))
        if not ready:
            raise ValueError("cyclic snapshot")
        n = ready[0]
        out.append(n)
        left.discard(n)
        for r in on[n]:
            pos[r] += 1
    return out


def build(snap):
    """CircuitDAG with the same wires (node ids renumbered in a linear-extension order); nodes lying on all wires of
    their classical registers are `add`ed, the others inserted on the last edges of their quantum wires"""
    from graphiq.circuit.circuit_dag import CircuitDAG

    circ = CircuitDAG(n_emitter=snap["ne"], n_photon=snap["np"], n_classical=snap["nc"])
    for n in linear_extension(snap):
        t = snap["nodes"][n]
        op = make_op(t)
        on_c = all(n in snap["wires"].get(f"c{i}", ()) for i in t[3])
        if on_c:
            circ.add(op)
        else:
            edges = [list(circ.dag.in_edges(f"{r}_out", keys=True))[0] for r in t[2]]
            circ.insert_at(op, edges)
    return circ
