"""
dmutil.py — helpers shared by the density-matrix / noise harnesses (C17, C06).

Exact side: matrices over Q[i] are numpy object arrays of `GQ` (pairs of `fractions.Fraction`); they are what is sent
to the Lean driver.  Float side: `to_complex` gives the numpy array handed to graphiq.  Independent reference
computations used by the direct oracles (textbook partial trace by explicit index loops, Uhlmann fidelity and trace
distance through scipy/numpy spectral routines that graphiq does not use) live here as well.
"""
import itertools
from fractions import Fraction as Fr

import numpy as np

TOL = 1e-9


def guarded(fn):
    """an exception escaping a check function comes from a call of the implementation on a valid input that the function did not expect
    to raise: it is reported as a violation with the input, never as a crash of the harness"""
    import functools
    import traceback

    @functools.wraps(fn)
    def wrapper(res, *a, **k):
        try:
            return fn(res, *a, **k)
        except Exception as e:  # noqa: BLE001
            tb = traceback.format_exc().strip().splitlines()
            res.violation(f"{fn.__name__}:unexpected-exception", "a call of the implementation raised on an input of the property's domain",
                          input=dict(args=repr(a)[:600]), error=repr(e)[:200], where=" | ".join(tb[-4:])[:400])
            return None

    return wrapper


# --------------------------------------------------------------------------------------------------------------- exact
def fr_str(q):
    q = Fr(q)
    return str(q.numerator) if q.denominator == 1 else f"{q.numerator}/{q.denominator}"


def parse_fr(s):
    return Fr(s)


class XMat:
    """exact square matrix over Q[i]: two lists of lists of Fraction"""

    def __init__(self, re, im=None):
        self.n = len(re)
        self.re = [[Fr(x) for x in row] for row in re]
        self.im = [[Fr(x) for x in row] for row in im] if im is not None else [[Fr(0)] * self.n for _ in range(self.n)]

    @classmethod
    def zeros(cls, n):
        return cls([[0] * n for _ in range(n)])

    @classmethod
    def eye(cls, n):
        return cls([[1 if i == j else 0 for j in range(n)] for i in range(n)])

    def to_complex(self):
        return np.array([[complex(float(self.re[i][j]), float(self.im[i][j])) for j in range(self.n)] for i in range(self.n)])

    def args(self, pfx=""):
        re = ",".join(fr_str(x) for row in self.re for x in row)
        im = ",".join(fr_str(x) for row in self.im for x in row)
        return f"{pfx}n={self.n} {pfx}re={re} {pfx}im={im}"

    def __matmul__(self, o):
        n = self.n
        R = XMat.zeros(n)
        for i in range(n):
            for k in range(n):
                ar, ai = self.re[i][k], self.im[i][k]
                if ar == 0 and ai == 0:
                    continue
                for j in range(n):
                    br, bi = o.re[k][j], o.im[k][j]
                    if br == 0 and bi == 0:
                        continue
                    R.re[i][j] += ar * br - ai * bi
                    R.im[i][j] += ar * bi + ai * br
        return R

    def dagger(self):
        n = self.n
        return XMat([[self.re[j][i] for j in range(n)] for i in range(n)], [[-self.im[j][i] for j in range(n)] for i in range(n)])

    def scale(self, q):
        q = Fr(q)
        return XMat([[q * x for x in row] for row in self.re], [[q * x for x in row] for row in self.im])

    def __add__(self, o):
        n = self.n
        return XMat([[self.re[i][j] + o.re[i][j] for j in range(n)] for i in range(n)],
                    [[self.im[i][j] + o.im[i][j] for j in range(n)] for i in range(n)])

    def trace(self):
        return sum(self.re[i][i] for i in range(self.n)), sum(self.im[i][i] for i in range(self.n))

    def key(self):
        return (tuple(tuple(r) for r in self.re), tuple(tuple(r) for r in self.im))


def kron(a, b):
    n = a.n * b.n
    R = XMat.zeros(n)
    for i in range(n):
        for j in range(n):
            ar, ai = a.re[i // b.n][j // b.n], a.im[i // b.n][j // b.n]
            br, bi = b.re[i % b.n][j % b.n], b.im[i % b.n][j % b.n]
            R.re[i][j] = ar * br - ai * bi
            R.im[i][j] = ar * bi + ai * br
    return R


def parse_mat(rep):
    """driver reply fields n=…, m=re,im;re,im;… -> numpy complex array and XMat"""
    n = int(rep["n"])
    ents = rep["m"].split(";") if n else []
    re = [[None] * n for _ in range(n)]
    im = [[None] * n for _ in range(n)]
    for k, e in enumerate(ents):
        a, b = e.split(",")
        re[k // n][k % n] = Fr(a)
        im[k // n][k % n] = Fr(b)
    return XMat(re, im)


def ket_to_xmat(vec_re, vec_im, norm_sq):
    """|v><v| / norm_sq for an integer-amplitude vector"""
    d = len(vec_re)
    re = [[Fr(vec_re[i] * vec_re[j] + vec_im[i] * vec_im[j], norm_sq) for j in range(d)] for i in range(d)]
    im = [[Fr(vec_im[i] * vec_re[j] - vec_re[i] * vec_im[j], norm_sq) for j in range(d)] for i in range(d)]
    return XMat(re, im)


def rand_pure(rng, n, amp=3, sparsity=0.3):
    """random pure state with Gaussian-integer amplitudes (so the density matrix is exactly rational); mostly entangled"""
    d = 2 ** n
    while True:
        vr = [0 if rng.random() < sparsity else rng.randint(-amp, amp) for _ in range(d)]
        vi = [0 if rng.random() < sparsity + 0.3 else rng.randint(-amp, amp) for _ in range(d)]
        ns = sum(a * a + b * b for a, b in zip(vr, vi))
        if ns:
            return ket_to_xmat(vr, vi, ns)


def rand_mixed(rng, n, rank=None, amp=3):
    """random mixed state: rational convex combination of random rational pure states"""
    d = 2 ** n
    rank = rank or rng.randint(2, d)
    ws = [rng.randint(1, 6) for _ in range(rank)]
    tot = sum(ws)
    R = XMat.zeros(d)
    for w in ws:
        R = R + rand_pure(rng, n, amp).scale(Fr(w, tot))
    return R


# --------------------------------------------------------------------------------------------------- independent oracles
def textbook_partial_trace(rho, keep, dims):
    """Σ_b rho[(a,b),(a',b)] by explicit loops over multi-indices (no einsum, no reshape tricks)"""
    nd = len(dims)
    keep = sorted(set(keep))
    traced = [i for i in range(nd) if i not in keep]
    kd = [dims[i] for i in keep]
    td = [dims[i] for i in traced]

    def flat(idx):
        k = 0
        for d, i in zip(dims, idx):
            k = k * d + i
        return k

    nk = int(np.prod(kd)) if kd else 1
    out = np.zeros((nk, nk), dtype=complex)
    for r, a in enumerate(itertools.product(*[range(d) for d in kd])):
        for c, a2 in enumerate(itertools.product(*[range(d) for d in kd])):
            s = 0
            for b in itertools.product(*[range(d) for d in td]):
                i1 = [0] * nd
                i2 = [0] * nd
                for p, v in zip(keep, a):
                    i1[p] = v
                for p, v in zip(keep, a2):
                    i2[p] = v
                for p, v in zip(traced, b):
                    i1[p] = v
                    i2[p] = v
                s += rho[flat(i1), flat(i2)]
            out[r, c] = s
    return out


def psd_sqrt(m):
    """matrix square root through scipy's Schur-based sqrtm when available, else SVD (graphiq uses eigh)"""
    m = (m + m.conj().T) / 2
    u, s, vh = np.linalg.svd(m)
    return (u * np.sqrt(s)) @ u.conj().T


def uhlmann_fidelity(rho, sigma):
    """(tr sqrt(sqrt(rho) sigma sqrt(rho)))^2 = (sum of singular values of sqrt(rho) sqrt(sigma))^2 — computed through
    singular values, a route graphiq does not take"""
    a = psd_sqrt(rho)
    b = psd_sqrt(sigma)
    s = np.linalg.svd(a @ b, compute_uv=False)
    return float(np.sum(s)) ** 2


def trace_distance_ref(rho, sigma):
    """½ · nuclear norm of the difference (singular values, not eigenvalues)"""
    s = np.linalg.svd(rho - sigma, compute_uv=False)
    return 0.5 * float(np.sum(s))


def min_eig(m):
    return float(np.linalg.eigvalsh((m + m.conj().T) / 2).min())


def close(a, b, tol=TOL):
    return abs(complex(a) - complex(b)) <= tol


def mat_close(a, b, tol=TOL):
    a = np.asarray(a)
    b = np.asarray(b)
    return a.shape == b.shape and bool(np.all(np.abs(a - b) <= tol))


# ------------------------------------------------------------------------------------------------------- dense gates
I2 = np.eye(2, dtype=complex)
X = np.array([[0, 1], [1, 0]], dtype=complex)
Y = np.array([[0, -1j], [1j, 0]], dtype=complex)
Z = np.array([[1, 0], [0, -1]], dtype=complex)
H = np.array([[1, 1], [1, -1]], dtype=complex) / np.sqrt(2)
S = np.array([[1, 0], [0, 1j]], dtype=complex)
PAULI = {"I": I2, "X": X, "Y": Y, "Z": Z}


def op_on(n, q, g):
    m = np.array([[1]], dtype=complex)
    for k in range(n):
        m = np.kron(m, g if k == q else I2)
    return m


def pauli_of_row(xrow, zrow):
    m = np.array([[1]], dtype=complex)
    for x, z in zip(xrow, zrow):
        m = np.kron(m, Y if (x and z) else X if x else Z if z else I2)
    return m


def stab_density(tab):
    """density matrix of a CliffordTableau with its signs (independent of graphiq's converter)"""
    n = tab.n_qubits
    xs = np.asarray(tab.stabilizer_x).astype(int)
    zs = np.asarray(tab.stabilizer_z).astype(int)
    ph = np.asarray(tab.phase).astype(int)[n:]
    rho = np.eye(2 ** n, dtype=complex)
    for k in range(n):
        rho = rho @ (np.eye(2 ** n) + ((-1) ** int(ph[k])) * pauli_of_row(xs[k], zs[k])) / 2
    return rho
