"""
C14 — exporting a circuit (openQASM, JSON) and importing it back yields the same circuit; the openQASM text read with
standard semantics denotes the same operations; export is deterministic.

Correspondence (exact): for every generated circuit the real `to_openqasm()` text is compared *character by character*
with the model's rendering, `to_json()` field by field, and the circuits returned by `from_openqasm` / `from_json`
(registers + operations in the order they were added) with the model's importers run on the model's own export.
A second stream feeds arbitrary — mostly valid, partly malformed — statement lists and JSON dictionaries to the real
importers and to the model (`c14.parse`, `c14.jsonparse`) and compares result or error class; `name_to_class_map` and the
`sdg|.` tokenisation are compared on random strings; the name tables are re-tabulated from the repository and compared
with the committed expected tables.

Direct oracle (never uses the model; evaluates the property on the implementation):
  * registers equal and, on every quantum register, the same sequence of (unwrapped, identity-free) operations after
    openQASM and after JSON round trip; equal distributions over compiled stabilizer states (all measurement branches);
  * an independent reader of the exported text with *standard* openQASM 2.0 semantics (composite bodies in textual
    order) yields, wire by wire, the circuit's operations; qiskit's `qasm2.loads` accepts the text and, for unitary-only
    circuits on <= 5 qubits, gives the same unitary (up to global phase) as the circuit's operation list;
  * exporting twice, exporting a deep copy and exporting a rebuilt circuit give identical text / JSON.
"""
import copy
import itertools
import re

import numpy as np

from harness import circutil as cu
from harness import tabutil as tu
from harness.common import Driver, Result, err_class, impl_guard

LEVEL = "proof"
TRUSTED_BASE = [
    "Lean 4.33 kernel",
    "hand-written model GraphiqModel/Model/Export.lean tied to openqasm_lib.py / circuit_base.py / circuit_dag.py / ops.py by this correspondence run "
    "(exact text, exact JSON, exact imported circuits, error classes)",
    "name tables regenerated from the repository on every run (Generated/NameTables.lean) and re-proved by kernel decide",
    "that the DAG's sequence() order is a linear extension of the per-register order (networkx.topological_sort; checked on every circuit)",
    "qiskit qasm2.loads / quantum_info.Operator as an independent standard reader (test of the primitive gate definitions, unitary circuits <= 5 qubits)",
    "harness, line protocol, driver parser/printer",
]
ASSUMPTIONS = [
    "text-level importer model: register indices are plain ASCII digit strings (Python's int() additionally accepts signs, underscores and "
    "non-ASCII digits; edited texts containing such tokens are not generated)",
    "quantifier: circuits over the 13 classes that class_to_name_mapping names (Hadamard, SigmaX/Y/Z, Phase, PhaseDagger, Identity, CNOT, CZ, "
    "ClassicalCNOT, ClassicalCZ, MeasurementCNOTandReset, MeasurementZ) and OneQubitGateWrapper over the one-qubit ones, registers of size 1; "
    "parameterised rotations are exported for drawing only (the importers know no parameters) and are outside the quantifier",
    "'same circuit' = same register counts and, on every quantum register, the same sequence of unwrapped, identity-free operations "
    "(the openQASM exporter drops identities and re-brackets wrappers by design)",
]

STD_NAMES = {"h": "Hadamard", "s": "Phase", "sdg": "PhaseDagger", "x": "SigmaX", "y": "SigmaY", "z": "SigmaZ", "CX": "CNOT", "cx": "CNOT", "cz": "CZ"}


# ------------------------------------------------------------------------------------------------ small helpers
def enc_json(d):
    def one(o):
        ty = "None" if o.get("type") is None else cu.pct_enc(o["type"])
        if "op_list" not in o:
            ol = "-"
        elif not o["op_list"]:
            ol = "[]"
        else:
            ol = "+".join(cu.pct_enc(x) for x in o["op_list"])
        qt = "".join(o["q_registers_type"]) or "-"
        qr = ".".join(str(x) for x in o["q_registers"]) or "-"
        cr = ".".join(str(x) for x in o["c_registers"]) or "-"
        return f"{ty}~{ol}~{qt}~{qr}~{cr}"

    ops = ";".join(one(o) for o in d["ops"]) or "-"
    return f"{d['n_photons']}|{d['n_emitters']}|{d['n_classical']}|{ops}"


def circ_repr(regs, tuples):
    return f"regs={regs[0]}.{regs[1]}.{regs[2]}/ops={cu.enc_ops(tuples)}"


def impl_circ_repr(c):
    tuples, _ = cu.add_order(c)
    return circ_repr(cu.regs_of(c), tuples)


def try_call(f, *a):
    try:
        return f(*a), None
    except Exception as e:  # noqa: BLE001
        return None, err_class(e)


# ------------------------------------------------------------------------------------------------ independent standard reader
def std_read(text):
    """read openQASM 2.0 text with standard semantics -> list of primitive statements
    ("app", name, [regs]) | ("measure", q, c) | ("cond", c, name, q) | ("reset", q); a call of a gate that the program
    defines with a body of gate calls (no U/CX primitives inside) executes that body in textual order."""
    t = text
    assert t.lstrip().startswith("OPENQASM 2.0;")
    t = t.lstrip()[len("OPENQASM 2.0;"):]
    comps = {}
    prims = set()

    def grab(m):
        head, body = m.group(1).strip(), m.group(2)
        name = re.split(r"[\s(]", head, 1)[0]
        calls = [s.strip() for s in body.split(";") if s.strip()]
        if calls and all(re.fullmatch(r"[a-z]+\s+a", s) for s in calls):
            comps.setdefault(name, [s.split()[0] for s in calls])
        else:
            prims.add(name)
        return ""

    t = re.sub(r"gate\s+([^{}]*)\{([^{}]*)\}", grab, t)
    out = []
    for st in t.split(";"):
        st = st.strip()
        if not st or st.startswith(("qreg", "creg", "barrier")):
            continue
        m = re.fullmatch(r"measure\s+([ep])(\d+)\[0\]\s*->\s*c(\d+)\[0\]", st)
        if m:
            out.append(("measure", (m.group(1), int(m.group(2))), int(m.group(3))))
            continue
        m = re.fullmatch(r"if\s*\(c(\d+)==1\)\s*([A-Za-z]+)\s+([ep])(\d+)\[0\]", st)
        if m:
            out.append(("cond", int(m.group(1)), m.group(2), (m.group(3), int(m.group(4)))))
            continue
        m = re.fullmatch(r"reset\s+([ep])(\d+)\[0\]", st)
        if m:
            out.append(("reset", (m.group(1), int(m.group(2)))))
            continue
        m = re.fullmatch(r"([A-Za-z]+)\s+(.*)", st)
        if not m:
            raise ValueError(f"unreadable statement {st!r}")
        name = m.group(1)
        regs = []
        for a in m.group(2).split(","):
            mm = re.fullmatch(r"([ep])(\d+)\[0\]", a.strip())
            if not mm:
                raise ValueError(f"unreadable argument in {st!r}")
            regs.append((mm.group(1), int(mm.group(2))))
        if name in comps:
            for g in comps[name]:
                out.append(("app", g, regs))
        else:
            out.append(("app", name, regs))
    return out


def std_of_circuit(tuples):
    """the circuit's own operations as primitive standard statements (application order)"""
    out = []
    inv = {"Hadamard": "h", "Phase": "s", "PhaseDagger": "sdg", "SigmaX": "x", "SigmaY": "y", "SigmaZ": "z"}
    for t in cu.flat(tuples):
        k = t[0]
        if k == "one":
            out.append(("app", inv[t[1]], [t[2]]))
        elif k == "ctrl":
            out.append(("app", {"CNOT": "CX", "CZ": "cz"}[t[1]], [t[2], t[3]]))
        elif k == "cctrl":
            out.append(("measure", t[2], t[4]))
            out.append(("cond", t[4], "z" if t[1] == "ClassicalCZ" else "x", t[3]))
            if t[1] == "MeasurementCNOTandReset":
                out.append(("reset", t[2]))
        elif k == "meas":
            out.append(("measure", t[1], t[2]))
    return out


def std_wires(stds):
    w = {}
    for s in stds:
        if s[0] == "app":
            regs = list(s[2])
            key = ("app", "CX" if s[1] == "cx" else s[1], tuple(regs))
        elif s[0] == "measure":
            regs = [s[1]]
            key = s
        elif s[0] == "cond":
            regs = [s[3]]
            key = s
        else:
            regs = [s[1]]
            key = s
        for r in regs:
            w.setdefault(r, []).append(key)
    return w


MAT = {"Hadamard": tu.H, "Phase": tu.S, "PhaseDagger": tu.S.conj().T, "SigmaX": tu.X, "SigmaY": tu.Y, "SigmaZ": tu.Z}


def le_on(n, q, m):
    out = np.array([[1]], dtype=complex)
    for k in reversed(range(n)):
        out = np.kron(out, m if k == q else tu.I2)
    return out


def unitary_of(tuples, ne, np_, order=None):
    """little-endian unitary of a unitary-only circuit; qubit index = position of the register in `order`
    (default: photons first, then emitters — the order of the declarations in the exported text)"""
    n = ne + np_

    def qi(q):
        if order is not None:
            return order[q]
        return q[1] if q[0] == "p" else np_ + q[1]

    u = np.eye(2 ** n, dtype=complex)
    p0, p1 = np.diag([1, 0]).astype(complex), np.diag([0, 1]).astype(complex)
    for t in cu.flat(tuples):
        if t[0] == "one":
            g = le_on(n, qi(t[2]), MAT[t[1]])
        elif t[0] == "ctrl":
            c, tg = qi(t[2]), qi(t[3])
            g = le_on(n, c, p0) + le_on(n, c, p1) @ le_on(n, tg, tu.X if t[1] == "CNOT" else tu.Z)
        else:
            return None
        u = g @ u
    return u


# ------------------------------------------------------------------------------------------------ the direct oracle
def oracle(res, ne, np_, nc, adds, state_check=True, qiskit_check=True, key_prefix="", history=None):
    """evaluate C14 on the implementation for the circuit built by adding `adds` (or, with `history` = 'replace' | 'insert', the same
    circuit reached through `replace_op` / `insert_at`); returns the objects the correspondence needs"""
    inp = {"ne": ne, "np": np_, "nc": nc, "adds": cu.enc_ops(adds)}
    if history:
        inp["history"] = history
        _build = lambda *a: cu.build_history(*a, mode=history)  # noqa: E731
    else:
        _build = cu.build
    c = _build(ne, np_, nc, adds)
    seq, idx = cu.seq_order(c)
    # cu.is_linear_extension reads the add order off the node ids; a circuit reached through mid-wire insertions ("insert-mid": node creation
    # order != circuit order) has no such correspondence, there the same specification is checked on the DAG itself: every edge goes forward
    if history == "insert-mid":
        pos = {id(op): i for i, op in enumerate(c.sequence())}
        lin_ok = all(pos[id(c.dag.nodes[u]["op"])] < pos[id(c.dag.nodes[v]["op"])] for u, v in c.dag.edges())
    else:
        lin_ok = cu.is_linear_extension(adds, idx)
    if not lin_ok:
        # trusted-base item "sequence() is a linear extension of the per-register order": it used to be a note only (exit 0)
        res.notes.append("networkx.topological_sort returned an order that is not a linear extension (library specification violated)")
        res.exact_break("sequence:not-a-linear-extension", input=inp, impl=".".join(map(str, idx)), model="sequence() lists the operations in an order compatible with every register's order")
    text, e1 = try_call(c.to_openqasm)
    jd, e2 = try_call(c.to_json)
    out = {"c": c, "seq": seq, "idx": idx, "text": text, "json": jd, "c2": None, "c3": None, "e_text": e1, "e_json": e2, "inp": inp}
    if e1 or e2:
        res.violation(f"{key_prefix}export:raises", f"exporter raised ({e1 or e2}) on a circuit over exportable operations", input=inp)
        return out
    want_w = cu.wires(adds, quantum_only=True)
    # -- determinism
    c_again = _build(ne, np_, nc, adds)
    for what, other in (("same object", lambda: c), ("deep copy", lambda: copy.deepcopy(c)), ("rebuilt circuit", lambda: c_again)):
        try:
            other = other()
            t2, j2 = other.to_openqasm(), other.to_json()
        except Exception as ex:  # noqa: BLE001 — the first export succeeded: exporting again (the same object / a copy) must not raise
            res.violation(f"{key_prefix}export:raises", f"exporting the {what} again raised ({err_class(ex)}) after a successful export", input=inp)
            break
        if what == "rebuilt circuit":
            # a rebuilt DAG may legitimately be sorted differently only if networkx were nondeterministic; it is not
            pass
        if t2 != text or j2 != jd:
            res.violation(f"{key_prefix}export:nondeterministic", f"exporting the {what} again gives a different result", input=inp,
                          impl=(t2 if t2 != text else str(j2))[:600])
            break
    # -- openQASM round trip
    c2, e = try_call(type(c).from_openqasm, text)
    out["c2"], out["e_c2"] = c2, e
    if e:
        res.violation(f"{key_prefix}openqasm:roundtrip:raises:{e}", "from_openqasm(to_openqasm(c)) raises", input=inp, text=text[:1500])
    else:
        t2, _ = cu.add_order(c2)
        if cu.regs_of(c2) != (ne, np_, nc):
            res.violation(f"{key_prefix}openqasm:roundtrip:registers", "imported circuit has different registers", input=inp,
                          impl=str(cu.regs_of(c2)))
        elif cu.wires(t2, quantum_only=True) != want_w:
            res.violation(f"{key_prefix}openqasm:roundtrip:operations", "some quantum register carries a different operation sequence after the round trip",
                          input=inp, impl=cu.enc_ops(t2), text=text[:1500])
    # -- JSON round trip
    c3, e = try_call(type(c).from_json, jd)
    out["c3"], out["e_c3"] = c3, e
    if e:
        res.violation(f"{key_prefix}json:roundtrip:raises:{e}", "from_json(to_json(c)) raises", input=inp, json=str(jd)[:1500])
    else:
        t3, _ = cu.add_order(c3)
        if cu.regs_of(c3) != (ne, np_, nc):
            res.violation(f"{key_prefix}json:roundtrip:registers", "imported circuit has different registers", input=inp, impl=str(cu.regs_of(c3)))
        elif cu.wires(t3, quantum_only=True) != want_w:
            res.violation(f"{key_prefix}json:roundtrip:operations", "some quantum register carries a different operation sequence after the round trip",
                          input=inp, impl=cu.enc_ops(t3), json=str(jd)[:1500])
    # -- standard reading of the text
    try:
        stds = std_read(text)
        if std_wires(stds) != std_wires(std_of_circuit(seq)):
            res.violation(f"{key_prefix}openqasm:standard-reading", "read with standard semantics the text applies different operations (or in a "
                          "different order) on some register than the circuit does", input=inp, text=text[:1500])
    except Exception as ex:  # noqa: BLE001
        res.violation(f"{key_prefix}openqasm:standard-reading:unreadable", f"independent reader cannot read the text: {ex}", input=inp, text=text[:1500])
    n = ne + np_
    if qiskit_check:
        from qiskit import qasm2

        try:
            qc = qasm2.loads(text)
        except Exception as ex:  # noqa: BLE001
            qc = None
            res.violation(f"{key_prefix}openqasm:invalid-text", f"qiskit's openQASM 2 reader rejects the text: {str(ex)[:200]}", input=inp, text=text[:1500])
        if qc is not None and n <= 5:
            order = {}
            for reg in qc.qregs:
                m = re.fullmatch(r"([ep])(\d+)", reg.name)
                if m and len(reg) == 1:
                    order[(m.group(1), int(m.group(2)))] = qc.find_bit(reg[0]).index
            u = unitary_of(seq, ne, np_, order) if len(order) == n else None
            if u is not None:
                from qiskit.quantum_info import Operator

                uq = Operator(qc).data
                if abs(abs(np.trace(u.conj().T @ uq)) - 2 ** n) > 1e-7:
                    res.violation(f"{key_prefix}openqasm:standard-unitary", "qiskit computes a different unitary from the text than the circuit's operations give",
                                  input=inp, text=text[:1500])
    # -- compiled states
    n_meas = sum(1 for t in adds if t[0] in ("meas", "cctrl"))
    if state_check and n <= 6 and n_meas <= 6:
        d1 = cu.state_distribution(c)
        for what, cc in (("openqasm", c2), ("json", c3)):
            if cc is None or cu.regs_of(cc)[:2] != (ne, np_):
                continue
            d2 = cu.state_distribution(cc)
            if cu.dists_equal(d1, d2) is False:
                res.violation(f"{key_prefix}{what}:roundtrip:state", "the re-imported circuit compiles to a different state (distribution over measurement branches)",
                              input=inp)
        out["state_checked"] = True
    return out


# ------------------------------------------------------------------------------------------------ correspondence
def correspond(res, drv, batch):
    """batch: list of oracle outputs; one driver line each; exact comparisons"""
    lines = []
    for o in batch:
        i = o["inp"]
        lines.append(f"c14.all ne={i['ne']} np={i['np']} nc={i['nc']} adds={i['adds']} seq={'.'.join(map(str, o['idx'])) or '-'}")
    reps = drv.batch(lines)
    for o, rep, ln in zip(batch, reps, lines):
        inp = o["inp"]
        if rep["_status"] != "ok":
            res.exact_break("c14.all", input=inp, impl="ok", model=rep["_raw"][:300])
            continue
        res.traces_validated += 1
        if o["text"] is not None:
            mt = cu.pct_dec(rep["text"])
            if mt != o["text"]:
                k = next((j for j in range(min(len(mt), len(o["text"]))) if mt[j] != o["text"][j]), min(len(mt), len(o["text"])))
                res.exact_break("to_openqasm:text", input=inp, impl=o["text"][max(0, k - 60):k + 60], model=mt[max(0, k - 60):k + 60], at=k)
        if o["json"] is not None:
            try:
                ej = enc_json(o["json"])
            except Exception as ex:  # noqa: BLE001 — a dictionary without the documented fields: a different export, not a harness crash
                ej = f"not encodable ({err_class(ex)}): {str(o['json'])[:300]}"
            if ej != rep["json"]:
                res.exact_break("to_json", input=inp, impl=ej[:800], model=rep["json"][:800])
        for what, cc, ee, key in (("from_openqasm", o["c2"], o.get("e_c2"), "qimp"), ("from_json", o["c3"], o.get("e_c3"), "jimp")):
            if o["text"] is None:
                continue
            impl = f"err:{ee}" if ee else impl_circ_repr(cc)
            if impl != rep[key]:
                res.exact_break(what, input=inp, impl=impl[:800], model=rep[key][:800])
        if rep.get("timp") != rep["qimp"]:
            # the model's text-level parser (regex / slicing glue) and its statement-level parser disagree on the model's own text
            res.exact_break("model: parseText(render) != parseStmts", input=inp, text_level=rep.get("timp", "")[:400], stmt_level=rep["qimp"][:400])
        if rep["std"] != rep["ref"]:
            # model-side reading of the model's own export differs from the circuit: the theorem's conclusion fails here
            res.exact_break("qasmStd(model export) != circuit", input=inp, model=rep["std"][:400], ref=rep["ref"][:400])
        if rep["flat"] != cu.enc_ops(cu.flat(o["seq"])):
            res.exact_break("flat", input=inp, impl=cu.enc_ops(cu.flat(o["seq"]))[:400], model=rep["flat"][:400])
    if lines:
        res.sample(lines[0][:300] + " -> " + reps[0]["_raw"][:240])


def classify(res, adds, ne, np_, nc):
    kinds = {t[0] for t in adds}
    has_id = any((t[0] == "one" and t[1] == "Identity") or (t[0] == "wrap" and "Identity" in t[1]) for t in adds)
    multi = any(t[0] == "cctrl" for t in adds)
    big = any(r[1] >= 10 for t in adds for r in cu.op_regs(t))
    for k in kinds:
        res.count("branches", f"op:{k}")
    if has_id:
        res.count("branches", "identity-present")
    if big:
        res.count("branches", "register-index>=10")
    for a, b in zip(adds, adds[1:]):
        if a[0] == "cctrl" or b[0] == "cctrl":
            res.count("branches", f"adjacent:{a[0]}>{b[0]}")
    n = ne + np_
    res.count("sizes", f"qubits={n}" if n <= 6 else ("qubits<=12" if n <= 12 else "qubits>12"))
    res.count("sizes", "ops<=3" if len(adds) <= 3 else ("ops<=12" if len(adds) <= 12 else "ops>12"))
    if ("wrap" in kinds or multi or has_id) and len(adds) >= 1:
        res.nontrivial(ne, np_, nc, tuple(adds))


def shrink_violation(res, n_before, ne, np_, nc, adds, state_check, qiskit_check):
    """replace the violation just recorded for this circuit by one on a minimised operation list (same key)"""
    if len(res.violations) <= n_before or getattr(res, "_shrunk", 0) >= 4:
        return
    res._shrunk = getattr(res, "_shrunk", 0) + 1
    key = res.violations[n_before]["key"]

    def fails(cand):
        r = Result()
        try:
            oracle(r, ne, np_, nc, cand, state_check=state_check, qiskit_check=qiskit_check)
        except Exception:  # noqa: BLE001
            return False
        return any(v["key"] == key for v in r.violations)

    small = cu.shrink_list(adds, fails)
    small = cu.simplify_ops(small, fails)
    if len(small) < len(adds) or small != list(adds):
        r = Result()
        oracle(r, ne, np_, nc, small, state_check=state_check, qiskit_check=qiskit_check)
        hit = [v for v in r.violations if v["key"] == key]
        if hit:
            hit[0]["shrunk_from"] = cu.enc_ops(adds)[:600]
            res.violations[n_before] = hit[0]


def run_circuits(res, drv, specs, state_check=True, qiskit_check=True):
    batch = []
    for ne, np_, nc, adds in specs:
        n_before = len(res.violations)
        o = None
        # building the circuit, sequence(), compiling it and reading the re-imported circuit happen outside try_call: an exception of
        # graphiq there is a violation on this circuit (it used to leave run() as exit 2)
        with impl_guard(res, "roundtrip", promise=True, input={"ne": ne, "np": np_, "nc": nc, "adds": cu.enc_ops(adds)}):
            o = oracle(res, ne, np_, nc, adds, state_check=state_check, qiskit_check=qiskit_check)
            shrink_violation(res, n_before, ne, np_, nc, adds, state_check, qiskit_check)
        res.evaluations += 1
        classify(res, adds, ne, np_, nc)
        if o is None:
            continue
        batch.append(o)
        if len(batch) >= 200:
            correspond(res, drv, batch)
            batch = []
    if batch:
        correspond(res, drv, batch)


# ------------------------------------------------------------------------------------------------ exhaustive small spaces
def small_alphabet():
    e0, p0 = ("e", 0), ("p", 0)
    al = [("one", g, e0) for g in ("Hadamard", "Identity")] + [("one", "PhaseDagger", p0)]
    al += [("wrap", ("Identity",), e0), ("wrap", ("Phase", "Identity"), p0), ("wrap", ("Hadamard", "PhaseDagger"), e0)]
    al += [("ctrl", "CNOT", e0, p0), ("ctrl", "CZ", p0, e0)]
    al += [("cctrl", g, e0, p0, 0) for g in cu.GC] + [("cctrl", "MeasurementCNOTandReset", p0, e0, 0)]
    al += [("meas", e0, 0), ("meas", p0, 0)]
    return al


def all_wrappers(maxlen):
    for n in range(1, maxlen + 1):
        for gs in itertools.product(cu.G1, repeat=n):
            yield (1, 1, 0, [("wrap", gs, ("p", 0)), ("one", "Hadamard", ("e", 0))])


# ------------------------------------------------------------------------------------------------ parser stream
GATE_NAMES = ["h", "s", "sdg", "x", "y", "z", "p", "id", "cx", "CX", "cz", "hs", "ssdg", "sdgs", "xyz", "hh", "sdgsdg", "sd", "dg", "q", "hq",
              "u", "CZ", "measure", "hsdgp", "ps", "zz"]
IF_GATES = ["x", "x", "x", "z", "z", "y", "h", "s", "xx", "X", "sdg", "p"]


def enc_stmt(s):
    k = s[0]
    if k == "g":
        return ":".join(["g", cu.pct_enc(s[1])] + [cu.enc_q(q) for q in s[2]])
    if k == "m":
        return f"m:{cu.enc_q(s[1])}:c{s[2]}"
    if k == "i":
        return f"i:c{s[1]}:{cu.pct_enc(s[2])}:{cu.enc_q(s[3])}"
    if k == "r":
        return f"r:{cu.enc_q(s[1])}"
    if k == "b":
        return "b:" + ".".join(cu.enc_q(q) for q in s[1])
    if k == "qr":
        return f"qr:{cu.enc_q(s[1])}:{s[2]}"
    if k == "cr":
        return f"cr:c{s[1]}:{s[2]}"
    return "e"


def random_stmts(rng, malformed):
    ne, np_, nc = rng.randrange(0, 4), rng.randrange(0, 4), rng.randrange(0, 3)
    if ne + np_ == 0:
        ne = 1
    decl = [("qr", ("p", i), 1) for i in range(np_)] + [("qr", ("e", i), 1) for i in range(ne)] + [("cr", i, 1) for i in range(nc)]
    if malformed and rng.random() < 0.3 and decl:
        decl.pop(rng.randrange(len(decl)))
    hi = 1 if not malformed else rng.choice([1, 1, 2])

    def q():
        t = rng.choice("ep")
        return (t, rng.randrange((ne if t == "e" else np_) + hi))

    def cr():
        return rng.randrange(nc + hi)

    body = []
    for _ in range(rng.randrange(0, 9)):
        w = rng.random()
        full = ("b", [("p", i) for i in range(np_)] + [("e", i) for i in range(ne)])
        if w < 0.30:
            nm = rng.choice(GATE_NAMES[:6] if not malformed else GATE_NAMES)
            body.append(("g", nm, [q()]))
        elif w < 0.42:
            nm = rng.choice(["CX", "cz", "cx"] if not malformed else GATE_NAMES)
            nargs = 2 if (not malformed or rng.random() < 0.8) else rng.choice([0, 3])
            body.append(("g", nm, [q() for _ in range(nargs)]))
        elif w < 0.55:
            a, b, c = q(), q(), cr()
            g = "x" if not malformed else rng.choice(IF_GATES)
            body += [full, ("m", a, c), ("i", c if rng.random() < 0.9 else cr(), g, b), ("b", [a, b]),
                     ("r", a if (not malformed or rng.random() < 0.7) else q()), full]
        elif w < 0.68:
            a, b, c = q(), q(), cr()
            g = rng.choice("xz") if not malformed else rng.choice(IF_GATES)
            body += [full, ("m", a, c), ("i", c, g, b), full]
        elif w < 0.78:
            body.append(("m", q(), cr()))
        elif w < 0.84 and malformed:
            body.append(rng.choice([("r", q()), ("i", cr(), "x", q()), ("e",), ("b", [q()])]))
        elif w < 0.90 and malformed:
            # an idiom with its barrier missing, or an `if` directly followed by a reset
            a, b, c = q(), q(), cr()
            body += [("m", a, c), ("i", c, "x", b), ("r", a)]
        else:
            body.append(("g", rng.choice(["hs", "ssdg", "xsdgz", "sdgsdg", "hh"]), [q()]))
    return decl + body


def run_parser_stream(res, drv, rng, n):
    from graphiq.circuit.circuit_dag import CircuitDAG

    specs = []
    for k in range(n):
        mal = rng.random() < 0.45
        st = random_stmts(rng, mal)
        header = "OPENQASM 2.0;" if (not mal or rng.random() < 0.9) else rng.choice(["OPENQASM 3.0;", "OPEN QASM 2.0;", "OPENQASM  2.0 ;", "openqasm 2.0;"])
        specs.append((st, header, mal))
    lines = [f"c14.parse header={cu.pct_enc(h)} stmts={','.join(enc_stmt(s) for s in st) or '-'}" for st, h, _ in specs]
    reps = drv.batch(lines)
    for (st, header, mal), rep, ln in zip(specs, reps, lines):
        res.evaluations += 1
        if rep["_status"] != "ok":
            res.exact_break("c14.parse", input=ln[:400], model=rep["_raw"][:200])
            continue
        text = cu.pct_dec(rep["text"])
        c, e = try_call(CircuitDAG.from_openqasm, text)
        impl = f"err:{e}" if e else impl_circ_repr(c)
        res.count("branches", "parse:" + ("error:" + e if e else "ok") + (":malformed-stream" if mal else ""))
        if e:
            res.count("errors", e)
        else:
            res.nontrivial("parse", text)
        if impl != rep["res"]:
            res.exact_break("from_openqasm(statement list)", input={"text": text[:1200]}, impl=impl[:500], model=rep["res"][:500])
        if impl != rep.get("tres"):
            res.exact_break("from_openqasm(text)", input={"text": text[:1200]}, impl=impl[:500], model=rep.get("tres", "")[:500])
    if lines:
        res.sample(lines[0][:300] + " -> " + reps[0]["_raw"][:200])


def mutate_text(rng, text):
    """character-level edits of an exported script: what the regex / slicing glue of the parser has to survive (or reject)"""
    t = list(text)
    for _ in range(rng.choice([1, 1, 2, 3])):
        if not t:
            break
        w = rng.random()
        i = rng.randrange(len(t))
        if w < 0.25:
            del t[i]
        elif w < 0.45:
            t.insert(i, rng.choice(" \n\t;[]0123456789epcxhsz,(){}->="))
        elif w < 0.6:
            t[i] = rng.choice(" ;[]0123456789epcxhszdg,")
        elif w < 0.75:
            # drop or duplicate a whole statement
            parts = "".join(t).split(";")
            k = rng.randrange(len(parts))
            if rng.random() < 0.5:
                parts.pop(k)
            else:
                parts.insert(k, parts[k])
            t = list(";".join(parts))
        elif w < 0.9:
            # change spacing
            s2 = "".join(t)
            s2 = s2.replace(", ", rng.choice([",", ",  ", " , "]), 1) if rng.random() < 0.5 else s2.replace(" ", "  ", 1)
            t = list(s2)
        else:
            s2 = "".join(t)
            a, b = rng.choice([("[0]", "[1]"), ("->", "-"), ("measure", "measur"), ("if", "iff"), ("reset", "rset"), ("gate", "gat"), ("}", ""), ("{", "")])
            t = list(s2.replace(a, b, 1))
    return "".join(t)


def run_text_stream(res, drv, rng, n):
    """arbitrary text for `from_openqasm`: exported scripts with character-level edits"""
    from graphiq.circuit.circuit_dag import CircuitDAG

    texts = []
    for _ in range(n):
        ne, np_, nc = rng.randrange(1, 13), rng.randrange(0, 13), rng.randrange(1, 4)
        adds = cu.random_circuit(rng, ne, np_, nc, rng.randrange(0, 8))
        text = cu.build(ne, np_, nc, adds).to_openqasm()
        texts.append(text if rng.random() < 0.1 else mutate_text(rng, text))
    # Python's int() also accepts a sign and single underscores between digits ("e-0[0]" is register 0, "e1_0[0]" register 10);
    # the model reads plain ASCII digit strings only, so such edits are outside its stated domain and are not generated
    texts = [t for t in texts if all(32 <= ord(ch) < 127 or ch in "\n\t" for ch in t) and not re.search(r"[-+_]\d|\d_", t.replace("->", "  "))]
    lines = [f"c14.parsetext text={cu.pct_enc(t)}" for t in texts]
    reps = drv.batch(lines)
    for text, rep in zip(texts, reps):
        res.evaluations += 1
        c, e = try_call(CircuitDAG.from_openqasm, text)
        impl = f"err:{e}" if e else impl_circ_repr(c)
        if not e and re.search(r"[epc]-\d", impl):
            # Python's int() accepts a sign: a negative register index is outside the model's domain (and the property's)
            res.count("branches", "parsetext:negative-register-skipped")
            continue
        res.count("branches", "parsetext:" + ("error:" + e if e else "ok"))
        if e:
            res.count("errors", e)
        else:
            res.nontrivial("parsetext", text)
        if rep["_status"] != "ok" or impl != rep.get("tres"):
            res.exact_break("from_openqasm(edited text)", input={"text": text[:1500]}, impl=impl[:500], model=rep["_raw"][:500])


NAMES_JSON = ["h", "s", "sdg", "x", "y", "z", "p", "id", "CX", "cx", "cz", "classical x", "classical z", "classical reset x", "measure z",
              "one qubit gate wrapper", "classical y", "u", "", "H", "measure"]


def mutate_json(rng, d):
    d = copy.deepcopy(d)
    for o in d["ops"]:
        o["q_registers_type"] = list(o["q_registers_type"])
        o["q_registers"] = list(o["q_registers"])
        o["c_registers"] = list(o["c_registers"])
    if not d["ops"]:
        return d
    for _ in range(rng.choice([1, 1, 2])):
        o = rng.choice(d["ops"])
        w = rng.random()
        if w < 0.35:
            o["type"] = rng.choice(NAMES_JSON + [None])
        elif w < 0.5 and "op_list" in o:
            o["op_list"] = [rng.choice(NAMES_JSON[:12]) for _ in range(rng.randrange(0, 4))]
        elif w < 0.6:
            if o["q_registers"]:
                k = rng.randrange(len(o["q_registers"]))
                o["q_registers"].pop(k)
                o["q_registers_type"].pop(k)
        elif w < 0.7:
            o["c_registers"] = [] if o["c_registers"] else [rng.randrange(3)]
        elif w < 0.8:
            if o["q_registers"]:
                o["q_registers"][0] += rng.choice([1, 2, 5])
        elif w < 0.9:
            k = rng.choice(["n_photons", "n_emitters", "n_classical"])
            d[k] = max(0, d[k] + rng.choice([-1, 1]))
        else:
            if o["type"] == "one qubit gate wrapper":
                o.pop("op_list", None)
            else:
                o["op_list"] = ["h", "s"]
    return d


def run_json_stream(res, drv, rng, n):
    from graphiq.circuit.circuit_dag import CircuitDAG

    specs = []
    for _ in range(n):
        ne, np_, nc = rng.randrange(1, 3), rng.randrange(1, 3), rng.randrange(1, 3)
        adds = cu.random_circuit(rng, ne, np_, nc, rng.randrange(1, 7))
        d = cu.build(ne, np_, nc, adds).to_json()
        specs.append(mutate_json(rng, d))
    lines = [f"c14.jsonparse j={enc_json(d)}" for d in specs]
    reps = drv.batch(lines)
    for d, rep, ln in zip(specs, reps, lines):
        res.evaluations += 1
        dd = copy.deepcopy(d)
        for o in dd["ops"]:
            for k in ("q_registers_type", "q_registers", "c_registers"):
                o[k] = tuple(o[k])
        c, e = try_call(CircuitDAG.from_json, dd)
        impl = f"err:{e}" if e else impl_circ_repr(c)
        res.count("branches", "jsonparse:" + ("error:" + e if e else "ok"))
        if e:
            res.count("errors", e)
        if rep["_status"] != "ok" or impl != rep.get("res"):
            res.exact_break("from_json(mutated dictionary)", input={"json": str(d)[:1200]}, impl=impl[:500], model=rep["_raw"][:500])


def run_names(res, drv, rng, n):
    import graphiq.circuit.ops as ops

    alpha = "sdgxyzhpcCXZi qe"
    strs = list(NAMES_JSON) + GATE_NAMES
    for _ in range(n):
        strs.append("".join(rng.choice(alpha) for _ in range(rng.randrange(0, 7))))
    lines = [f"c14.name s={cu.pct_enc(s)}" for s in strs]
    reps = drv.batch(lines)
    for s, rep in zip(strs, reps):
        res.evaluations += 1
        try:
            k = ops.name_to_class_map(s)
            impl = "None" if k is None else k.__name__
        except Exception as ex:  # noqa: BLE001 — total on strings in the model: compared as an answer, not a harness crash
            impl = "err:" + err_class(ex)
        toks = ",".join(cu.pct_enc(x) for x in re.findall(r"sdg|.", s)) or "-"
        if rep["_status"] != "ok" or rep["cls"] != impl:
            res.exact_break("name_to_class_map", input=s, impl=impl, model=rep["_raw"][:200])
        elif rep["toks"] != toks and "\n" not in s:
            res.exact_break("re.findall('sdg|.')", input=s, impl=toks, model=rep["toks"])


def table_oracle(res):
    """the name tables themselves: every exportable class must survive class -> name -> class (direct oracle on the repository's functions)"""
    import graphiq.circuit.ops as ops

    from harness import gen_tables_export as gte

    for nm in gte.CLASSES:
        k = getattr(ops, nm, None)
        if k is None:
            res.violation(f"tables:class-missing:{nm}", f"operation class {nm} no longer exists", input=nm)
            continue
        j = ops.class_to_name_mapping(k)
        if j is None or ops.name_to_class_map(j) is not k:
            res.violation(f"json:name-table:{nm}", f"name_to_class_map(class_to_name_mapping({nm})) is not {nm}", input=nm, impl=str(j))
        g = k.openqasm_info().gate_name
        if nm in cu.G1[:-1] + cu.G2 and ops.name_to_class_map(g) is not k:
            res.violation(f"openqasm:name-table:{nm}", f"name_to_class_map of the openQASM gate name {g!r} is not {nm}", input=nm)
    diffs = gte.diff_expected()
    if diffs:
        res.notes.append("name tables differ from lean/expected_tables/export.json: " + "; ".join(diffs)[:1500])
        res.extra["table_diffs"] = diffs[:40]
    return diffs


# ------------------------------------------------------------------------------------------------ entry points
def random_specs(rng, n, sizes):
    out = []
    for _ in range(n):
        ne, np_, nc, nops = sizes(rng)
        out.append((ne, np_, nc, cu.random_circuit(rng, ne, np_, nc, nops)))
    return out


def run(ctx):
    res = Result()
    res.rule = ("one evaluation = one circuit exported and re-imported through both formats (plus standard-reading, determinism and state checks), or one "
                "statement list / JSON dictionary / name string given to an importer; non-trivial = the circuit contains a wrapper, an identity or a "
                "classically controlled multi-line operation (resp. the importer accepted the input); distinct by the full input")
    drv = Driver()
    rng = ctx.rng
    with impl_guard(res, "tables", promise=True):
        table_oracle(res)
    q = ctx.quick
    # 1. exhaustive small spaces
    al = small_alphabet()
    lens = (1, 2) if q else (1, 2, 3)
    specs = [(1, 1, 1, list(w)) for n in lens for w in itertools.product(al, repeat=n)]
    run_circuits(res, drv, specs, state_check=True, qiskit_check=True)
    run_circuits(res, drv, list(all_wrappers(3 if q else 4)), state_check=False, qiskit_check=False)
    res.exhaustive = True
    res.notes.append(f"exhaustive: every operation sequence of length <= {max(lens)} over a {len(al)}-operation alphabet on e0,p0,c0 (barrier rule, "
                     f"measurement idioms, identities); every OneQubitGateWrapper of length <= {3 if q else 4} over the 7 one-qubit classes")
    # 2. random circuits, small registers (state oracle applies)
    run_circuits(res, drv, random_specs(rng, 900 if q else 12000, lambda r: (r.randrange(1, 4), r.randrange(1, 4), r.randrange(1, 3), r.randrange(1, 16))))
    # 3. many registers: multi-digit indices
    run_circuits(res, drv, random_specs(rng, 250 if q else 3000, lambda r: (r.randrange(9, 15), r.randrange(9, 15), r.randrange(1, 14), r.randrange(5, 40))),
                 state_check=False)
    # 3b. the same circuits reached through other edit histories (replace_op of a placeholder, insert_at on the output edges): the
    #     exporters read header material that every edit path must have registered; oracle only (the header then also lists the
    #     placeholders' definitions, which the model of `add`-built circuits does not contain — not a property matter)
    n0 = res.evaluations
    for hist in ("replace", "insert", "insert-mid"):
        for (ne, np_, nc, adds) in ([(1, 1, 1, list(w)) for n in (1, 2) for w in itertools.product(al, repeat=n)]
                                     + random_specs(rng, 120 if q else 1500, lambda r: (r.randrange(1, 4), r.randrange(1, 4), r.randrange(1, 3),
                                                                                     r.randrange(1, 12)))):
            if hist == "insert" and any(t[0] in ("cctrl", "meas") for t in adds):
                adds = [t for t in adds if t[0] not in ("cctrl", "meas")]
                if not adds:
                    continue
            nv = len(res.violations)
            with impl_guard(res, "history:roundtrip", promise=True, input={"ne": ne, "np": np_, "nc": nc, "adds": cu.enc_ops(adds), "history": hist}):
                oracle(res, ne, np_, nc, adds, state_check=(ne + np_ <= 4), qiskit_check=True, key_prefix="history:", history=hist)
            res.evaluations += 1
            res.nontrivial(("hist", hist, ne, np_, nc, cu.enc_ops(adds)))
            if len(res.violations) > nv:
                break
    res.extra["history_built_circuits"] = res.evaluations - n0
    # 4. importers on arbitrary inputs
    with impl_guard(res, "import:statements"):
        run_parser_stream(res, drv, rng, 2500 if q else 40000)
    with impl_guard(res, "import:edited-text"):
        run_text_stream(res, drv, rng, 1500 if q else 25000)
    with impl_guard(res, "import:mutated-json"):
        run_json_stream(res, drv, rng, 1000 if q else 15000)
    with impl_guard(res, "names"):
        run_names(res, drv, rng, 2500 if q else 30000)
    res.extra["driver_lines"] = drv.n_lines
    drv.close()
    return res


def search(ctx, res, proof_broken):
    """a theorem or the correspondence broke: hammer the direct oracle (exhaustive small space, then random)"""
    drv = Driver()
    al = small_alphabet()
    specs = [(1, 1, 1, list(w)) for n in (1, 2, 3) for w in itertools.product(al, repeat=n)]
    for s in specs:
        oracle(res, *s, qiskit_check=False)
        if res.violations:
            break
    if not res.violations:
        for s in all_wrappers(4):
            oracle(res, *s, state_check=False, qiskit_check=False)
            if res.violations:
                break
    if not res.violations:
        for s in random_specs(ctx.rng, 3000, lambda r: (r.randrange(1, 13), r.randrange(1, 13), r.randrange(1, 12), r.randrange(1, 25))):
            oracle(res, *s, state_check=(s[0] + s[1] <= 5))
            if res.violations:
                break
    drv.close()


def replay(ctx, data):
    v = data.get("violation") or {}
    inp = v.get("input")
    if isinstance(inp, str):
        r = Result()
        table_oracle(r)
        for x in r.violations:
            print(x["key"], x["clause"])
        return not r.violations
    if not isinstance(inp, dict) or "adds" not in inp:
        return None
    r = Result()
    oracle(r, int(inp["ne"]), int(inp["np"]), int(inp["nc"]), cu.dec_ops(inp["adds"]), history=inp.get("history"))
    for x in r.violations:
        print("still failing:", x["key"], "-", x["clause"])
    return not r.violations
