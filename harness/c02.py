"""
C02 — the time-reversed solver returns a circuit that generates the target exactly.

Proof (Lean, all targets / sizes / outcome scripts): C02.solve_sound — if the solver MODEL (Model/Solver.lean) returns and its final
working tableau is |0..0> (hypothesis `hfinal`), the circuit it recorded, run by the verified tableau semantics from all-|0> under EVERY
outcome script, leaves the photons exactly in |G> and every emitter in |0>.  This harness ties the theorem to the code and discharges
its hypothesis on every input: (i) the model's circuit is compared EXACTLY (per-wire operation sequences, wrapper lists) with the
circuit the real `TimeReversedSolver` returns, and the model's `zero` flag (= `hfinal`: the final working tableau generates the group of |0..0>) must be 1; (ii) independently, every circuit
returned by the real solver is validated by the Lean validator `circ.check` (theorem C02.validator_sound: acceptance means that under
EVERY combination of measurement outcomes the verified tableau semantics leaves the photons exactly in |G> and every emitter in |0>);
(iii) it is compiled by both real backends under forced-0, forced-1 and random outcomes and compared with the target by independent
means (signed-group canonicaliser / dense matrices); (iv) `validate()`d, and the reported score must be 0.  Targets: all labelled
graphs on <= 4 (quick) / <= 5 (thorough) vertices without isolated vertices, given as graph, stabilizer and density-matrix
QuantumState, plus random graphs (connected and not, random vertex orders).
(v) STABILIZER TARGETS THAT ARE NOT GRAPH STATES (`check_stab_target`): the real solver is given a CliffordTableau — a graph state under random
local Cliffords with random signs (no product qubit: C02.solver_complete_stabilizer says the model returns), or a random Clifford state (often
with a product qubit: mostly the general form of D3, C02.isolated_vertex_raises / Solver.solve_isolated_raises_stabilizer) — and compared exactly with
the model on the same rows (operations per wire; on a raise: the error class); the returned circuit must prepare target ⊗ |0..0> on the real
stabilizer backend (forced 0 / 1) and under the verified tableau semantics (`circ.stab`, several outcome scripts), both compared through the
independent signed-group canonicaliser.  These targets reach the absorption branches with photon Pauli Y / Z that graph targets never take.
"""
import itertools

import numpy as np

from harness import tabutil as tu
from harness.c01 import make_compilers, tokens_of
from harness.common import Driver, Result, err_class

LEVEL = "proof"
TRUSTED_BASE = [
    "Lean 4.33 kernel; theorems C02.solve_sound (soundness of the solver model for every target, size and outcome script, under hfinal = 'the model's "
    "final working tableau generates the group of |0..0>'), C02.solver_complete / solver_complete_stabilizer (completeness: for every graph on >= 1 vertex without "
    "isolated vertex / every stabilizer target without product qubit the model returns and hfinal holds), C02.solve_correct (both together) and C02.validator_sound, "
    "on top of the C07/C01 tableau semantics and the C03 echelon/height theorems",
    "C02.solve_sound_unconditional / solve_returns_correct remove hfinal (whenever the model returns, its circuit is correct); no theorem of the property file "
    "carries a hypothesis on inverse_circuit any more: C11's inverseCircuit_complete / inverseCircuit_isZero are imported",
    "correspondence: the solver model is compared exactly (per-wire operation sequences) with the implementation on every generated target; "
    "hfinal's executable form (driver flag zero=1) is evaluated on every input; the two tableau-rewriting helpers (_time_reversed_measurement, "
    "_add_photon_absorption) and inverse_circuit are additionally compared with their models on synthetic inputs; targets reaching rarely taken "
    "sign-dependent branches are chosen with the model's branch tags (the tag histogram is in the evidence)",
    "harness: translation of the implementation's op sequence into the validator's input (tokens_of), numpy dense reference (n_quantum <= 8)",
]
ASSUMPTIONS = ["targets with an isolated vertex are the known finding D3 (solver raises IndexError) and are evaluated only for that finding; "
               "they (and the empty graph, ValueError) are exactly the targets excluded by the hypotheses of C02.solver_complete",
               "stabilizer targets with a product qubit (a group element supported on one qubit) are outside C02.solver_complete_stabilizer; most of them "
               "are the same finding in its general form (IndexError), a few (product qubit = first photon) are solved correctly: the implementation must "
               "behave exactly as the model (same error class, or the same circuit, which is then validated like every other)"]

KEY_D3 = "solve:target-has-isolated-vertex:raises"


def all_adj(n):
    pairs = list(itertools.combinations(range(n), 2))
    for mask in range(1 << len(pairs)):
        a = np.zeros((n, n), dtype=int)
        for i, (u, v) in enumerate(pairs):
            if mask >> i & 1:
                a[u, v] = a[v, u] = 1
        yield a


def target_state(adj, rep, order=None):
    """QuantumState of |adj>; with `order` (a permutation of the labels) the graph object lists its nodes in that insertion order:
    position k carries label order[k] — graphiq's convention is qubit k = k-th node of G.nodes, so the state is the same |adj>"""
    import networkx as nx
    from graphiq.state import QuantumState

    if order is None:
        g = nx.from_numpy_array(adj)
    else:
        g = nx.Graph()
        g.add_nodes_from(order)
        n = adj.shape[0]
        g.add_edges_from((order[i], order[j]) for i in range(n) for j in range(i + 1, n) if adj[i, j])
        assert list(g.nodes()) == list(order)
    st = QuantumState(g, rep_type="g")
    if rep != "g":
        st.convert_representation(rep)
    return st


def graph_canon(adj, ne):
    n = adj.shape[0]
    x = np.zeros((n + ne, n + ne), dtype=int)
    z = np.zeros((n + ne, n + ne), dtype=int)
    x[:n, :n] = np.eye(n, dtype=int)
    z[:n, :n] = adj
    z[n:, n:] = np.eye(ne, dtype=int)
    return tu.span_canon(x, z, np.zeros(n + ne, dtype=int))


def check_graph(ctx, res, drv, adj, rep, backend, SC, DC, pending, order=None, light=False, repeat=None):
    from graphiq.metrics import Infidelity
    from graphiq.solvers.time_reversed_solver import TimeReversedSolver

    n = adj.shape[0]
    iso = bool((adj.sum(axis=0) == 0).any())
    inp = {"adjacency": tu.bits(adj), "n": n, "target_rep": rep, "backend": backend}
    if order is not None:
        inp["node_order"] = ",".join(map(str, order))
    res.evaluations += 1
    res.count("sizes", f"n={n}" if n <= 6 else "n>6")
    model_cmd = f"solver.trs n={n} x={tu.bits(np.eye(n, dtype=int))} z={tu.bits(adj)} r={'0' * n}"
    # building the target is not the solver: an exception here is never the known finding
    try:
        target = target_state(adj, rep, order)
    except Exception as e:  # noqa: BLE001
        res.violation(f"target:raises:{err_class(e)}", f"building the target QuantumState (representation {rep}) raised {err_class(e)}: {str(e)[:120]}", input=inp)
        return
    try:
        comp = (SC if backend == "stab" else DC)()
        comp.measurement_determinism = 1
        solver = TimeReversedSolver(target=target, metric=Infidelity(target), compiler=comp)
    except Exception as e:  # noqa: BLE001
        res.violation(f"solver:init:raises:{err_class(e)}", f"TimeReversedSolver(...) raised {err_class(e)}: {str(e)[:120]}", input=inp)
        return
    try:
        solver.solve()
    except Exception as e:  # noqa: BLE001
        cls = err_class(e)
        if iso and cls == "index":
            # the known finding D3, exactly as proved of the model (C02.isolated_vertex_raises: solve = .error .index); nothing else is known
            res.count("errors", "D3:index")
            res.violation(KEY_D3, "TimeReversedSolver.solve() raises IndexError on a target with an isolated vertex", input=inp)
        else:
            res.violation(f"solve:raises:{cls}", f"TimeReversedSolver.solve() raised {cls}: {str(e)[:120]}"
                          + (" (target with an isolated vertex: only IndexError is the known finding D3)" if iso else ""), input=inp)
        if iso:
            # the model is asked as well: it must fail on this target, with the same error class
            pending.append((model_cmd, dict(inp, _kind="model-raises", _cls=cls)))
        return
    try:
        score, circuit = solver.result
        score_f = float(score)
        ne, np_, nc = int(circuit.n_emitters), int(circuit.n_photons), int(circuit.n_classical)
    except Exception as e:  # noqa: BLE001
        res.violation("solve:malformed-result", f"solver.result is not (score, circuit) with a numeric score and integer register counts: {type(e).__name__}: {str(e)[:120]}", input=inp)
        return
    if iso:
        res.known_gone.append(KEY_D3 + " did not reproduce on " + inp["adjacency"])
    if not abs(score_f) <= 1e-9:
        res.violation("solve:score-not-zero", f"reported score {score} is not 0", input=inp)
    try:
        circuit.validate()
    except Exception as e:  # noqa: BLE001
        res.violation("solve:invalid-circuit", f"returned circuit does not validate: {err_class(e)}", input=inp)
        return
    if np_ != n:
        res.violation("solve:wrong-photon-count", f"circuit has {np_} photons for {n} vertices", input=inp)
        return
    try:
        toks, kinds = tokens_of(circuit)
    except Exception as e:  # noqa: BLE001
        res.violation("solve:circuit-outside-model", f"the returned circuit cannot be read as a sequence of modelled operations: {type(e).__name__}: {str(e)[:120]}", input=inp)
        return
    inp["ops"] = ",".join(toks)
    inp["ne"] = ne
    want = graph_canon(adj, ne)
    # history: the property holds for EVERY call of solve(); the same solver object is asked again (and a third time after its result
    # was read): it must return, and return the same circuit (a different one is validated on its own)
    if repeat or (repeat is None and ne + np_ <= 14 and (n <= 3 or ctx.rng.random() < (0.12 if ctx.quick else 0.3))):
        res.count("branches", "history:repeated-solve")
        for k in (2, 3):
            try:
                solver.solve()
                score_k, circuit_k = solver.result
            except Exception as e:  # noqa: BLE001
                res.violation(f"solve:repeat:raises:{err_class(e)}",
                              f"call number {k} of solve() on the same solver object raised {err_class(e)} (the first call returned a circuit)", input=inp)
                break
            try:
                bad_score = not abs(float(score_k)) <= 1e-9
                toks_k, _ = tokens_of(circuit_k)
            except Exception as e:  # noqa: BLE001
                res.violation("solve:repeat:malformed-result", f"call number {k} of solve(): result cannot be read: {type(e).__name__}: {str(e)[:120]}", input=inp)
                break
            if bad_score:
                res.violation("solve:repeat:score-not-zero", f"call number {k} of solve() on the same solver object reports score {score_k}", input=inp)
            ne_k = getattr(circuit_k, "n_emitters", None)
            if per_wire(toks_k) != per_wire(toks) or ne_k != ne:
                inp_k = dict(inp, ops=",".join(toks_k), ne=ne_k, call=k)
                res.exact_break("solve:repeat:different-circuit", input=inp_k, impl=",".join(toks_k)[:1500], model=",".join(toks)[:1500])
                pending.append((f"circ.check ne={ne_k} np={np_} a={tu.bits(adj) or '-'} ops={inp_k['ops'] or '-'} max=256", inp_k))
                break
    # both real backends, three settings
    import numpy.random as npr

    from harness.c01 import Script

    for name, C in (("stab", SC), ("dm", DC)):
        if name == "dm" and ne + np_ > (6 if ctx.quick else 8):
            continue
        if light and name == "dm":
            continue
        for det in (("p",) if light else (0, 1, "p")):
            comp = C()
            comp.measurement_determinism = "probabilistic" if det == "p" else det
            sc = Script([ctx.rng.randrange(2) for _ in range(4 * len(toks) + 4)])
            saved = (npr.randint, npr.choice)
            npr.randint, npr.choice = sc.randint, sc.choice
            np.random.randint, np.random.choice = sc.randint, sc.choice
            try:
                state = comp.compile(circuit)
                data = state.rep_data.data
            except Exception as e:  # noqa: BLE001
                res.violation(f"solve:circuit-does-not-compile:{name}", f"{name} backend raised {err_class(e)} on the returned circuit", input=inp)
                continue
            finally:
                npr.randint, npr.choice = saved
                np.random.randint, np.random.choice = saved
            try:
                if name == "stab":
                    ok = tu.is_binary(data) and tu.is_valid(data) and tu.stab_canon(data) == want
                else:
                    ref = _dense_target(adj, ne)
                    ok = np.asarray(data).shape == ref.shape and np.allclose(np.asarray(data), ref, atol=1e-8)
            except Exception:  # noqa: BLE001 (a state object that cannot even be read is a wrong state)
                ok = False
            if not ok:
                res.violation(f"solve:wrong-state:{name}", f"{name} backend (setting {det}): photons are not in the target graph state with emitters in |0>", input=inp)
    pending.append((f"circ.check ne={ne} np={np_} a={tu.bits(adj) or '-'} ops={inp['ops'] or '-'} max=256", inp))
    # exact correspondence with the solver model (per-wire operation sequences)
    pending.append((model_cmd, dict(inp, _kind="model", _toks=toks)))


# ------------------------------------------------------------------------------------------------ stabilizer targets that are not graph states
def _expected_canon(x, z, r, ne):
    """independent canonical form of the signed group of (target rows) ⊗ |0…0> on the emitters"""
    n = x.shape[0]
    m = n + ne
    X = np.zeros((m, m), dtype=int)
    Z = np.zeros((m, m), dtype=int)
    R = np.zeros(m, dtype=int)
    X[:n, :n], Z[:n, :n], R[:n] = x, z, r
    for e in range(n, m):
        Z[e, e] = 1
    return tu.span_canon(X, Z, R)


def _product_qubits(x, z):
    """qubits carrying a group element supported on that qubit alone (GF(2) rank of the generators with the qubit's two columns removed)"""
    n = x.shape[0]
    out = []
    for q in range(n):
        keep = [j for j in range(n) if j != q]
        m = np.concatenate([x[:, keep], z[:, keep]], axis=1).astype(int) % 2
        rk, rows = 0, m.copy()
        for c in range(rows.shape[1]):
            piv = next((i for i in range(rk, n) if rows[i, c]), None)
            if piv is None:
                continue
            rows[[rk, piv]] = rows[[piv, rk]]
            for i in range(n):
                if i != rk and rows[i, c]:
                    rows[i] ^= rows[rk]
            rk += 1
        if rk < n:
            out.append(q)
    return out


def _stab_target(rng, quick):
    """a stabilizer target that is NOT handed over as a graph: a graph state without isolated vertex under random local Cliffords and
    random signs (no product qubit, C02.solver_complete_stabilizer applies), or a random Clifford circuit on |0…0> (may contain product qubits)"""
    import networkx as nx
    from graphiq.backends.stabilizer.functions import transformation as tr

    if rng.random() < 0.75:
        while True:
            n = rng.randrange(2, 7 if quick else 9)
            g = nx.gnp_random_graph(n, rng.uniform(0.3, 0.9), seed=rng.getrandbits(30))
            adj = nx.to_numpy_array(g).astype(int)
            if not (adj.sum(axis=0) == 0).any():
                break
        p = rng.sample(range(n), n)
        adj = adj[np.ix_(p, p)]
        st = target_state(adj, "s")
        t = st.rep_data.data
        for q in range(n):
            for _ in range(rng.randrange(0, 4)):
                k = rng.randrange(5)
                t = (tr.hadamard_gate, tr.phase_gate, tr.phase_dagger_gate, tr.x_gate, tr.z_gate)[k](t, q)
        kind = "lc-graph"
    else:
        n = rng.randrange(2, 6 if quick else 8)
        t = tu.random_tableau(rng, n, depth=rng.randrange(2 * n, 6 * n), signs=False)
        kind = "random-clifford"
    return kind, t


def check_stab_target(ctx, res, drv, SC, pending, given=None):
    """the real solver on a stabilizer target given as a tableau; the returned circuit must prepare target ⊗ |0…0> (real stabilizer backend, and the
    verified tableau semantics via `circ.stab`, both compared through the independent canonicaliser); exact comparison with the solver model"""
    from graphiq.metrics import Infidelity
    from graphiq.solvers.time_reversed_solver import TimeReversedSolver
    from graphiq.state import QuantumState

    kind, t = given if given is not None else _stab_target(ctx.rng, ctx.quick)
    n = t.n_qubits
    stab = t.to_stabilizer()
    x = np.asarray(stab.x_matrix).astype(int) % 2
    z = np.asarray(stab.z_matrix).astype(int) % 2
    r = np.asarray(stab.phase).astype(int) % 2
    prod = _product_qubits(x, z)
    inp = {"n": n, "x": tu.bits(x), "z": tu.bits(z), "r": tu.bits(r), "target_rep": "tableau:" + kind, "backend": "stab", "product_qubits": prod,
           "tab": {"table": tu.bits(np.asarray(t.table).astype(int) % 2), "phase": tu.bits(np.asarray(t.phase).astype(int) % 2),
                   "iphase": tu.bits(np.asarray(t.iphase).astype(int) % 2)}}
    res.evaluations += 1
    res.count("branches", "stab-target:" + kind + (":product-qubit" if prod else ""))
    model_cmd = f"solver.trs n={n} x={tu.bits(x)} z={tu.bits(z)} r={tu.bits(r)}"
    try:
        target = QuantumState(t, rep_type="s")
        comp = SC()
        comp.measurement_determinism = 1
        solver = TimeReversedSolver(target=target, metric=Infidelity(target), compiler=comp)
    except Exception as e:  # noqa: BLE001
        res.violation(f"solver:init:raises:{err_class(e)}", f"QuantumState / TimeReversedSolver(...) raised {err_class(e)} on a valid stabilizer tableau: {str(e)[:120]}", input=inp)
        return
    try:
        solver.solve()
    except Exception as e:  # noqa: BLE001
        if prod:
            # outside solver_complete_stabilizer (mostly D3 in its general form): the model must fail with the same class
            res.count("errors", "D3-stab:" + err_class(e))
            pending.append((model_cmd, dict(inp, _kind="model-raises", _cls=err_class(e))))
        else:
            res.violation(f"solve:stab-target:raises:{err_class(e)}", f"TimeReversedSolver raised {err_class(e)} on a stabilizer target without product qubit: {str(e)[:120]}", input=inp)
        return
    try:
        score, circuit = solver.result
        score_f = float(score)
        ne, np_, nc = int(circuit.n_emitters), int(circuit.n_photons), int(circuit.n_classical)
    except Exception as e:  # noqa: BLE001
        res.violation("solve:malformed-result", f"solver.result is not (score, circuit) with a numeric score and integer register counts: {type(e).__name__}: {str(e)[:120]}", input=inp)
        return
    if prod:
        # not a violation (the circuit is validated like any other), but it refutes the characterisation "returns iff no product qubit" for stabilizer targets
        res.count("branches", "stab-target:product-qubit:returned")
    if not abs(score_f) <= 1e-9:
        res.violation("solve:score-not-zero", f"reported score {score} is not 0 (stabilizer target)", input=inp)
    try:
        circuit.validate()
    except Exception as e:  # noqa: BLE001
        res.violation("solve:invalid-circuit", f"returned circuit does not validate: {err_class(e)}", input=inp)
        return
    if np_ != n:
        res.violation("solve:wrong-photon-count", f"circuit has {np_} photons for {n} qubits", input=inp)
        return
    try:
        toks, _ = tokens_of(circuit)
    except Exception as e:  # noqa: BLE001
        res.violation("solve:circuit-outside-model", f"the returned circuit cannot be read as a sequence of modelled operations: {type(e).__name__}: {str(e)[:120]}", input=inp)
        return
    inp["ops"] = ",".join(toks)
    inp["ne"] = ne
    want = _expected_canon(x, z, r, ne)
    if want is None:
        return
    for det in (0, 1):
        comp = SC()
        comp.measurement_determinism = det
        try:
            data = comp.compile(circuit).rep_data.data
        except Exception as e:  # noqa: BLE001
            res.violation("solve:circuit-does-not-compile:stab", f"stab backend raised {err_class(e)} on the returned circuit", input=inp)
            continue
        try:
            ok = tu.is_binary(data) and tu.is_valid(data) and tu.stab_canon(data) == want
        except Exception:  # noqa: BLE001
            ok = False
        if not ok:
            res.violation("solve:wrong-state:stab", f"stab backend (setting {det}): the circuit does not prepare the stabilizer target with emitters in |0>", input=inp)
    m = sum(1 for tk in toks if tk.startswith("M"))
    if m > 0:
        res.nontrivial(inp["x"] + inp["z"] + inp["r"], inp["target_rep"], "stab")
    scripts = {"0" * m, "1" * m} | {"".join(ctx.rng.choice("01") for _ in range(m)) for _ in range(2)}
    for sc in sorted(scripts):
        pending.append((f"circ.stab ne={ne} np={np_} nc={nc} det=p script={sc or '-'} ops={inp['ops'] or '-'}", dict(inp, _kind="stab-run", _want=want, script=sc)))
    pending.append((model_cmd, dict(inp, _kind="model", _toks=toks)))


def _dense_target(adj, ne):
    n = adj.shape[0]
    m = n + ne
    rho = np.eye(2 ** m, dtype=complex) / 2 ** m
    for v in range(n):
        x = [1 if j == v else 0 for j in range(m)]
        z = [int(adj[v, j]) if j < n else 0 for j in range(m)]
        rho = rho @ (np.eye(2 ** m) + tu.pauli_matrix(x, z))
    for e in range(n, m):
        rho = rho @ (np.eye(2 ** m) + tu.pauli_matrix([0] * m, [1 if j == e else 0 for j in range(m)]))
    return rho


def per_wire(toks):
    """token list in some topological order -> {register: [tokens touching it, in order]}"""
    wires = {}
    for t in toks:
        parts = t.split(":")
        regs = [p for p in parts[1:] if p and p[0] in "ep" and p[1:].isdigit()] if parts[0] != "W" else [parts[2]]
        for r in regs:
            wires.setdefault(r, []).append(t)
    return wires


def flush(res, drv, pending):
    for rep, (ln, inp) in zip(drv.batch([p[0] for p in pending]), pending):
        if inp.get("_kind") == "model-raises":
            clean = {k: v for k, v in inp.items() if not k.startswith("_")}
            if rep["_status"] == "ok" or rep["_raw"].split()[1:2] != [inp["_cls"]]:
                res.exact_break("solver.trs:error-class", input=clean, impl=inp["_cls"], model=rep["_raw"][:200])
            continue
        if inp.get("_kind") == "stab-run":
            clean = {k: v for k, v in inp.items() if not k.startswith("_")}
            if rep["_status"] != "ok" or rep.get("valid") != "1" or tu.canon_from_reply(rep) != inp["_want"]:
                res.violation("solve:stab-target:wrong-state-under-verified-semantics",
                              "run by the verified tableau semantics under this outcome script the returned circuit does not prepare the stabilizer target with emitters in |0>",
                              input=clean, model=rep["_raw"][:300])
            else:
                res.traces_validated += 1
            continue
        if inp.get("_kind") == "model":
            clean = {k: v for k, v in inp.items() if not k.startswith("_")}
            if rep["_status"] != "ok":
                res.exact_break("solver.trs:error-class", input=clean, impl="ok", model=rep["_raw"][:200])
                continue
            mtoks = [] if rep["ops"] == "-" else rep["ops"].split(",")
            for tg in set(() if rep.get("tags", "-") == "-" else rep["tags"].split("|")):
                res.count("branches", "tag:" + tg)
            if rep.get("zero") != "1":
                # hypothesis `hfinal` of C02.solve_sound fails on this input: the proof does not cover it
                res.exact_break("solver.trs:final-tableau-not-zero", input=clean, impl="ok", model=rep["_raw"][:300])
            else:
                res.extra["hfinal_checked"] = res.extra.get("hfinal_checked", 0) + 1
            if int(rep["ne"]) != clean["ne"] or per_wire(mtoks) != per_wire(inp["_toks"]):
                res.exact_break("solver.trs", input=clean, impl=",".join(inp["_toks"])[:1500], model=rep["_raw"][:1500])
            continue
        if rep["_status"] != "ok":
            res.violation("solve:validator-error", "the verified validator could not run the returned circuit", input=inp, model=rep["_raw"][:200])
            continue
        res.branch([f"scripts={rep['scripts']}", "all-outcomes" if rep["all"] == "1" else "sampled-outcomes", f"ne={inp['ne']}"])
        if int(rep["m"]) > 0:
            res.nontrivial(inp["adjacency"], inp["target_rep"], inp["backend"])
        if rep["gen"] != "1":
            res.violation("solve:rejected-by-verified-validator", "under some combination of measurement outcomes the returned circuit does not generate the target (verified semantics)",
                          input=inp, model=rep["_raw"])
        else:
            res.traces_validated += 1
    if pending:
        res.sample(pending[-1][0][:400])
    pending.clear()


def run(ctx, budget=1.0):
    import networkx as nx

    res = Result()
    res.rule = ("one evaluation = one (target graph, target representation, backend) solved by the real solver and validated; non-trivial = the "
                "returned circuit contains at least one measuring operation; distinct by (adjacency matrix incl. vertex order, representation, backend)")
    drv = Driver()
    rng = ctx.rng
    SC, DC = make_compilers()
    pending = []
    nmax = 4 if ctx.quick else 5
    for n in range(1, nmax + 1):
        for adj in all_adj(n):
            reps = ["g", "s", "dm"] if n <= 3 else [rng.choice(["g", "s", "dm"])]
            for rep in reps:
                check_graph(ctx, res, drv, adj, rep, "stab" if rng.random() < 0.7 else "dm", SC, DC, pending)
            if len(pending) > 40:
                flush(res, drv, pending)
    flush(res, drv, pending)
    for _ in range(int((40 if ctx.quick else 400) * budget)):
        n = rng.randrange(5, 9 if ctx.quick else 14)
        g = nx.gnp_random_graph(n, rng.uniform(0.15, 0.9), seed=rng.getrandbits(30))
        adj = nx.to_numpy_array(g).astype(int)
        p = rng.sample(range(n), n)
        adj = adj[np.ix_(p, p)]
        check_graph(ctx, res, drv, adj, rng.choice(["g", "s"]), "stab", SC, DC, pending)
        if len(pending) > 20:
            flush(res, drv, pending)
    # graph objects whose node insertion order is not the sorted label order (qubit k = k-th node of G.nodes everywhere in graphiq):
    # all graphs on 3 vertices x all orders, then random ones
    scr = [(adj, list(o)) for adj in all_adj(3) for o in itertools.permutations(range(3)) if list(o) != [0, 1, 2]]
    for _ in range(int((30 if ctx.quick else 300) * budget)):
        n = rng.randrange(4, 8)
        g = nx.gnp_random_graph(n, rng.uniform(0.3, 0.9), seed=rng.getrandbits(30))
        scr.append((nx.to_numpy_array(g).astype(int), rng.sample(range(n), n)))
    for adj, order in scr:
        if (adj.sum(axis=0) == 0).any():
            continue
        check_graph(ctx, res, drv, adj, "g", "dm" if (adj.shape[0] <= 4 and rng.random() < 0.3) else "stab", SC, DC, pending, order=order,
                    light=adj.shape[0] > 3)
        if len(pending) > 20:
            flush(res, drv, pending)
    # many more targets that need three or more emitters (dense graphs on 7..10 vertices), in light mode: real solver + exact
    # comparison with the solver model + the verified validator on the returned circuit + one compile on the stabilizer backend;
    # the rarely taken sign-dependent branches of the final emitter clean-up (inverse_circuit) are only reached here
    n_light = 0
    for _ in range(int((160 if ctx.quick else 4000) * budget)):
        n = rng.randrange(6, 11)
        g = nx.gnp_random_graph(n, rng.uniform(0.35, 0.8), seed=rng.getrandbits(30))
        adj = nx.to_numpy_array(g).astype(int)
        if (adj.sum(axis=0) == 0).any():
            continue
        check_graph(ctx, res, drv, adj, "s" if rng.random() < 0.5 else "g", "stab", SC, DC, pending, light=True)
        n_light += 1
        if len(pending) > 40:
            flush(res, drv, pending)
    res.extra["light_targets"] = n_light
    guided_targets(ctx, res, drv, SC, DC, pending, int((900 if ctx.quick else 12000) * budget))
    # stabilizer targets handed over as tableaux (not graphs): local-Clifford images of graph states with random signs, random Clifford states
    for _ in range(int((150 if ctx.quick else 3000) * budget)):
        check_stab_target(ctx, res, drv, SC, pending)
        if len(pending) > 40:
            flush(res, drv, pending)
    flush(res, drv, pending)
    helper_correspondence(ctx, res, drv, int((80 if ctx.quick else 1500) * budget))
    solver_helper_correspondence(ctx, res, drv, SC, int((600 if ctx.quick else 10000) * budget))
    if not ctx.quick:
        for _ in range(20):
            n = rng.randrange(14, 31)
            g = nx.gnp_random_graph(n, rng.uniform(0.1, 0.5), seed=rng.getrandbits(30))
            check_graph(ctx, res, drv, nx.to_numpy_array(g).astype(int), "g", "stab", SC, DC, pending)
    flush(res, drv, pending)
    res.exhaustive = True
    res.notes.append(f"exhaustive over all labelled graphs on <= {nmax} vertices (isolated-vertex targets only for the known finding D3)")
    res.extra["driver_lines"] = drv.n_lines
    drv.close()
    return res


# targets on which the time-reversed measurement meets an emitter-only generator that is exactly -Z on one emitter (the emitter has to be
# flipped right after its mid-circuit reset): smallest known instances, one disconnected and one connected (9 vertices, 2 emitters)
CORPUS = [
    (9, [(0, 2), (1, 3), (2, 3), (4, 6), (4, 7), (5, 6), (6, 7), (7, 8)]),
    (9, [(0, 1), (0, 2), (1, 3), (2, 3), (3, 4), (4, 6), (4, 7), (5, 7), (5, 8), (6, 7)]),
]


def _conn_block(rng, k):
    import networkx as nx

    while True:
        h = nx.gnp_random_graph(k, rng.uniform(0.3, 0.9), seed=rng.getrandbits(30))
        if nx.is_connected(h):
            return h


def _block_target(rng):
    """sparse target made of 2-3 small connected blocks on CONSECUTIVE vertex ranges (the emission order is the vertex order), optionally
    bridged by single edges; 7..14 vertices, typically 2-3 emitters.  Emitters that become free between the blocks are what the
    sign-sensitive branch of the time-reversed measurement acts on."""
    import networkx as nx

    k1, k2 = rng.randrange(3, 6), rng.randrange(4, 7)
    g = nx.Graph()
    g.add_edges_from(_conn_block(rng, k1).edges)
    g.add_edges_from((u + k1, v + k1) for u, v in _conn_block(rng, k2).edges)
    if rng.random() < 0.5:
        g.add_edge(rng.randrange(k1), k1 + rng.randrange(k2))
    if rng.random() < 0.3:
        k3, off = rng.randrange(2, 4), k1 + k2
        g.add_edges_from((u + off, v + off) for u, v in _conn_block(rng, k3).edges)
        if rng.random() < 0.5:
            g.add_edge(rng.randrange(off), off + rng.randrange(k3))
    return nx.to_numpy_array(g, nodelist=sorted(g.nodes)).astype(int)


def _tree_target(rng):
    """tree on 8..11 vertices plus 0-3 extra edges, random vertex order"""
    import networkx as nx

    n = rng.randrange(8, 12)
    g = nx.Graph()
    g.add_nodes_from(range(n))
    for v in range(1, n):
        g.add_edge(v, rng.randrange(v))
    for _ in range(rng.randrange(0, 4)):
        u, v = rng.sample(range(n), 2)
        g.add_edge(u, v)
    adj = nx.to_numpy_array(g, nodelist=range(n)).astype(int)
    p = rng.sample(range(n), n)
    return adj[np.ix_(p, p)]


def guided_targets(ctx, res, drv, SC, DC, pending, n_cand):
    """Model-guided choice of targets.  The sign-sensitive steps of the solver (sign repair in `_single_out_emitter` and in
    `_add_photon_absorption`) depend on the SHAPE and SIGN of the generator they act on; some combinations (e.g. a time-reversed measurement
    whose emitter-only generator is exactly -Z on one emitter) occur on no connected graph with <= 6 vertices and on < 1 % of random sparse
    targets.  The compiled solver model prints, for a target, the tags of the combinations its run meets (`solver.tags`, ~6 ms per target), so
    many sparse candidates are screened with the model and the REAL solver is then run and validated on (a) the fixed corpus, (b) every
    candidate that meets a sign-repair on a single-Z generator, (c) up to three candidates per other tag with a firing sign repair.
    The tag histogram of the screened candidates and of all solved targets goes into the evidence (`branches`, keys `screen:` / `tag:`)."""
    flush(res, drv, pending)
    for n, edges in CORPUS:
        adj = np.zeros((n, n), dtype=int)
        for u, v in edges:
            adj[u, v] = adj[v, u] = 1
        check_graph(ctx, res, drv, adj, "g", "stab", SC, DC, pending, light=True)
    cands = []
    for i in range(n_cand):
        adj = _block_target(ctx.rng) if i % 4 else _tree_target(ctx.rng)
        if not (adj.sum(axis=0) == 0).any():
            cands.append(adj)
    lines = [f"solver.tags n={a.shape[0]} x={tu.bits(np.eye(a.shape[0], dtype=int))} z={tu.bits(a)} r={'0' * a.shape[0]}" for a in cands]
    chosen, per_tag = [], {}
    for adj, rep in zip(cands, drv.batch(lines)):
        if rep["_status"] != "ok":
            continue
        tags = set(() if rep.get("tags", "-") == "-" else rep["tags"].split("|"))
        for tg in tags:
            res.count("branches", "screen:" + tg)
        want = False
        for tg in sorted(tags):
            if not tg.endswith(":-"):
                continue
            cap = (4 if ctx.quick else 80) if tg == "trm:Z1:-" else (1 if ctx.quick else 6)
            if per_tag.get(tg, 0) < cap:
                per_tag[tg] = per_tag.get(tg, 0) + 1
                want = True
        if want:
            chosen.append(adj)
    res.extra["guided"] = {"screened": len(cands), "chosen": len(chosen), "per_tag": per_tag}
    for adj in chosen:
        check_graph(ctx, res, drv, adj, "s" if ctx.rng.random() < 0.5 else "g", "stab", SC, DC, pending, light=True)
        if len(pending) > 40:
            flush(res, drv, pending)
    flush(res, drv, pending)


def _working_tableau(rng):
    """a synthetic working tableau of the solver before the round of photon `p`: photons p+1..np-1 absorbed (|0>), the active qubits (photons
    0..p and the emitters) in a random stabilizer state of one of three shapes — one emitter free in a single-qubit state ±X/±Y/±Z (the generator a
    time-reversed measurement acts on is then a signed single Pauli), two emitters jointly free, or everything entangled —, random signs,
    brought to the echelon gauge by the real `rref`.  Returns (np, ne, p, StabilizerTableau)."""
    import graphiq.backends.stabilizer.functions.stabilizer as sfs
    from graphiq.backends.stabilizer.tableau import StabilizerTableau
    from harness import stabutil as su

    np_, ne = rng.randrange(2, 6), rng.randrange(1, 4)
    p = rng.randrange(np_)
    n = np_ + ne
    active = list(range(p + 1)) + list(range(np_, n))
    shape = rng.randrange(3)
    blocks = []
    if shape == 0:
        e = rng.choice(range(np_, n))
        blocks.append([e])
        blocks.append([q for q in active if q != e])
    elif shape == 1 and ne >= 2:
        es = rng.sample(range(np_, n), 2)
        blocks.append(es)
        blocks.append([q for q in active if q not in es])
    else:
        blocks.append(active)
    x = np.zeros((n, n), dtype=int)
    z = np.zeros((n, n), dtype=int)
    r = np.zeros(n, dtype=int)
    row = 0
    for q in range(p + 1, np_):
        z[row, q] = 1
        row += 1
    for qs in blocks:
        if not qs:
            continue
        st = su.random_state(rng, len(qs)).to_stabilizer()
        t = np.asarray(st.table).astype(int)
        k = len(qs)
        for i in range(k):
            for j, q in enumerate(qs):
                x[row, q] = t[i, j]
                z[row, q] = t[i, k + j]
            r[row] = int(st.phase[i])
            row += 1
    perm = rng.sample(range(n), n)
    tab = StabilizerTableau([x[perm], z[perm]], r[perm])
    tab = sfs.rref(tab)
    return np_, ne, p, tab


_HELPER_SOLVERS = {}


def _helper_solver(np_, ne, SC):
    import networkx as nx
    from graphiq.metrics import Infidelity
    from graphiq.solvers.time_reversed_solver import TimeReversedSolver
    from graphiq.state import QuantumState

    if (np_, ne) not in _HELPER_SOLVERS:
        target = QuantumState(nx.path_graph(np_), rep_type="g")
        solver = TimeReversedSolver(target=target, metric=Infidelity(target), compiler=SC())
        solver.n_emitter, solver.n_photon = ne, np_
        _HELPER_SOLVERS[(np_, ne)] = solver
    return _HELPER_SOLVERS[(np_, ne)]


def solver_helper_correspondence(ctx, res, drv, SC, count):
    """Helper-level correspondence of the two tableau-rewriting steps of the solver: the REAL `_time_reversed_measurement` and
    `_add_photon_absorption` are driven on synthetic working tableaux (signed, in echelon gauge, incl. the shape "the emitter-only generator is
    ±P on one emitter") and compared with the model's functions (`solver.trm` / `solver.absorb`): resulting tableau (x, z, signs), recorded
    operations per wire, or the class of the exception.  A disagreement is a broken correspondence of C02 (then `search` looks for a
    solver-level failing target), not by itself a violation."""
    from graphiq.circuit.circuit_dag import CircuitDAG
    from harness import stabutil as su

    _HELPER_SOLVERS.clear()
    jobs = []
    def fits(which, np_, p, tab):
        t = np.asarray(tab.table).astype(int)
        n = tab.n_qubits
        nz = (t[:, :n] + t[:, n:]) > 0
        if which == "trm":  # some generator acts on no photon
            return bool((~nz[:, :np_].any(axis=1)).any())
        lead = [int(np.argmax(row)) if row.any() else -1 for row in nz]  # a generator starts at the photon and acts on an emitter
        return any(ld == p and nz[i, np_:].any() for i, ld in enumerate(lead))

    for i in range(count):
        which = "trm" if i % 2 == 0 else "absorb"
        for attempt in range(6):
            np_, ne, p, tab = _working_tableau(ctx.rng)
            if fits(which, np_, p, tab) or (attempt == 0 and ctx.rng.random() < 0.1):
                break
        args = f"np={np_} ne={ne} photon={p} " + su.stab_args(tab)
        solver = _helper_solver(np_, ne, SC)
        circuit = CircuitDAG(n_emitter=ne, n_photon=np_, n_classical=1)
        work = tab.copy()
        try:
            if which == "trm":
                solver._time_reversed_measurement(circuit, work, p)
            else:
                solver._add_photon_absorption(circuit, work, p)
            toks, _ = tokens_of(circuit)
            impl = ("ok", su.stab_tuple(work), per_wire(toks), ",".join(toks))
        except UnboundLocalError:
            impl = ("err", "runtime")
        except Exception as e:  # noqa: BLE001
            impl = ("err", err_class(e))
        jobs.append((f"solver.{which} {args}", which, args, impl))
    n_ok = 0
    for (ln, which, args, impl), rep in zip(jobs, drv.batch([j[0] for j in jobs])):
        res.evaluations += 1
        res.count("branches", f"helper:{which}:{impl[0]}")
        if rep["_status"] != "ok":
            got = ("err", rep.get("_err", rep["_raw"].split()[-1] if rep["_raw"] else ""))
        else:
            mt = [] if rep["ops"] == "-" else rep["ops"].split(",")
            got = ("ok", su.reply_stab_tuple(rep), per_wire(mt), rep["ops"])
        same = (impl[0] == got[0]) and (impl[1] == got[1]) and (impl[0] == "err" or impl[2] == got[2])
        if same:
            n_ok += impl[0] == "ok"
            continue
        res.exact_break(f"helper:solver.{which}", input={"args": args}, impl=str(impl[1:])[:900], model=rep["_raw"][:900])
    res.extra["solver_helper_ok"] = n_ok


def helper_correspondence(ctx, res, drv, count):
    """The solver model calls the model of `inverse_circuit` for its last step (emitter clean-up); `solve_sound` is therefore about the code only
    if that helper corresponds as well.  Targets reach its sign-dependent branches rarely (three or more emitters left in a correlated
    computational-basis state with a negative generator), so the helper is also compared directly on emitter-block-shaped inputs: random
    stabilizer states on 3..7 qubits with random signs, re-gauged.  A disagreement is a broken correspondence of C02 (the solver-level failing
    target is then searched for in `search`), not by itself a violation of C02."""
    from harness import c11
    from harness import stabutil as su

    sub = Result()
    pend = []
    for _ in range(count):
        n = ctx.rng.randrange(3, 8)
        st = su.random_state(ctx.rng, n).to_stabilizer()
        if ctx.rng.random() < 0.5:
            st = su.regauge_stab(st, ctx.rng)
        c11.check_one(sub, drv, st, "solver-helper", pend)
        if len(pend) >= 40:
            c11.flush(sub, drv, pend)
    c11.flush(sub, drv, pend)
    res.evaluations += sub.evaluations
    res.count("branches", "helper:inverse_circuit", sub.evaluations)
    for v in sub.violations:
        res.exact_break("helper:inverse_circuit (" + v["key"] + ")", input=v.get("input"), impl=str({k: v[k] for k in v if k not in ("key", "clause", "input")})[:600],
                        model=v["clause"])
    for b in sub.exact_breaks:
        res.exact_break("helper:" + b["correspondence"], **{k: b[k] for k in b if k != "correspondence"})


def search(ctx, res, proof_broken):
    """a proof obligation or a correspondence (solver or helper) broke and no target failed yet: many more targets that need three or
    more emitters, real solver + verified validator, until one fails or the budget is used"""
    import time

    import networkx as nx

    if res.violations:
        return
    drv = Driver()
    SC, DC = make_compilers()
    pending = []
    t0 = time.time()
    n_try = 0
    # first the sparse block-structured targets chosen with the model's branch tags (the sign-sensitive branches of the two solver helpers)
    guided_targets(ctx, res, drv, SC, DC, pending, 4000 if ctx.quick else 20000)
    # then stabilizer targets that are not graph states (absorption branches with photon Pauli Y / Z)
    for _ in range(600 if ctx.quick else 3000):
        if res.violations:
            break
        check_stab_target(ctx, res, drv, SC, pending)
        if len(pending) > 40:
            flush(res, drv, pending)
    flush(res, drv, pending)
    while time.time() - t0 < (240 if ctx.quick else 1200) and not res.violations:
        n = ctx.rng.randrange(6, 10)
        g = nx.gnp_random_graph(n, ctx.rng.uniform(0.35, 0.8), seed=ctx.rng.getrandbits(30))
        adj = nx.to_numpy_array(g).astype(int)
        if (adj.sum(axis=0) == 0).any():
            continue
        check_graph(ctx, res, drv, adj, "s" if ctx.rng.random() < 0.5 else "g", "stab", SC, DC, pending, light=True)
        n_try += 1
        if len(pending) > 40:
            flush(res, drv, pending)
    flush(res, drv, pending)
    res.notes.append(f"search: {n_try} further dense targets solved and validated")
    drv.close()


def replay(ctx, data):
    v = data.get("violation") or {}
    inp = v.get("input") or {}
    if "tab" in inp:
        # a stabilizer target handed over as a tableau: rebuild exactly the CliffordTableau of the failing run
        from graphiq.backends.stabilizer.clifford_tableau import CliffordTableau

        n = int(inp["n"])
        t = CliffordTableau(tu.unbits(inp["tab"]["table"], (2 * n, 2 * n)), phase=tu.unbits(inp["tab"]["phase"], (2 * n,)))
        t.iphase = tu.unbits(inp["tab"]["iphase"], (2 * n,))
        res = Result()
        drv = Driver()
        SC, DC = make_compilers()
        pending = []
        check_stab_target(ctx, res, drv, SC, pending, given=(str(inp.get("target_rep", "tableau:replay")).split(":", 1)[-1], t))
        flush(res, drv, pending)
        drv.close()
        for x in res.violations:
            print(x["key"], x["clause"])
        return not res.violations
    if "adjacency" not in inp:
        return None
    n = int(inp["n"])
    adj = tu.unbits(inp["adjacency"], (n, n))
    res = Result()
    drv = Driver()
    SC, DC = make_compilers()
    pending = []
    order = [int(k) for k in inp["node_order"].split(",")] if inp.get("node_order") else None
    check_graph(ctx, res, drv, adj, inp.get("target_rep", "g"), inp.get("backend", "stab"), SC, DC, pending, order=order, repeat=True)
    flush(res, drv, pending)
    drv.close()
    for x in res.violations:
        print(x["key"], x["clause"])
    return not res.violations
